//! C05 — a write statement that fails changes nothing.
use crate::*;
use samyama::graph::GraphStore;
use serde::{Deserialize, Serialize};

#[derive(Clone, Debug, Serialize, Deserialize)]
pub struct Case {
    pub g: RGraph,
    /// statements run before the statement under test (constraints, indexes)
    pub setup: Vec<String>,
    /// the statement with the planted fault
    pub stmt: String,
    /// rows before the fault only (None = the fault is in the first row)
    pub prefix: Option<String>,
    /// what the failing row itself may have left behind: alternative statement lists that are
    /// executed after `prefix` when looking for the known "no rollback" state
    pub partial: Vec<Vec<String>>,
    /// position of the fault among the rows and number of rows
    pub k: usize,
    pub n: usize,
    pub template: String,
    pub fault: String,
    /// statements run after a failed statement that changed nothing, on the store and on a twin
    /// that never saw the failed statement: each must be accepted/refused alike and leave the
    /// same graph (a value that was free is still free, a claimed one still claimed)
    #[serde(default)]
    pub probes: Vec<String>,
}

fn render_list(items: &[String]) -> String {
    format!("[{}]", items.join(", "))
}

pub fn build(tape: &[u16]) -> Case {
    let mut t = Tape::new(tape);
    let mut g = gen::gen_graph(&mut t);
    let n = 1 + t.choose(5);
    let k = t.choose(n);
    let fault_kind = t.choose(3);
    let items: Vec<String> = (0..n).map(|i| format!("{}", 1 + ((i * 3 + t.choose(3)) % 9))).collect();
    let template = t.choose(12);
    let mut probes: Vec<String> = Vec::new();
    let mut setup = Vec::new();
    if t.chance(1, 2) {
        setup.push("CREATE INDEX ON :N(v)".to_string());
    }
    let (fault_txt, fault_name): (String, &str) = match fault_kind {
        1 => ("'a'".into(), "type_error"),
        _ => ("0".into(), "division_by_zero"),
    };
    let with_fault = |items: &Vec<String>, k: usize, f: &str| -> Vec<String> {
        let mut v = items.clone();
        v[k] = f.to_string();
        v
    };
    let (stmt, prefix, partial, tname, fname): (String, Option<String>, Vec<Vec<String>>, &str, String) = match template {
        0 | 1 => {
            let body = if template == 0 { "CREATE (:N {v: 10 / x, i: x})" } else { "CREATE (:N {v: 10 / x, i: x})-[:R {w: x}]->(:M {i: x})" };
            let faulty = with_fault(&items, k, &fault_txt);
            let stmt = format!("UNWIND {} AS x {}", render_list(&faulty), body);
            let prefix = if k > 0 { Some(format!("UNWIND {} AS x {}", render_list(&items[..k].to_vec()), body)) } else { None };
            // the failing row's node is created before its property map is evaluated
            let partial = if template == 0 { vec![vec!["CREATE (:N)".to_string()]] } else { vec![vec!["CREATE (:N)".to_string()], vec!["CREATE (:N)-[:R]->(:M)".to_string()], vec!["CREATE (:N), (:M)".to_string()]] };
            (stmt, prefix, partial, if template == 0 { "unwind_create_node" } else { "unwind_create_path" }, fault_name.to_string())
        }
        2 => {
            let body = "MERGE (n:N {i: x}) ON CREATE SET n.v = 10 / x";
            let faulty = with_fault(&items, k, &fault_txt);
            let stmt = format!("UNWIND {} AS x {}", render_list(&faulty), body);
            let prefix = if k > 0 { Some(format!("UNWIND {} AS x {}", render_list(&items[..k].to_vec()), body)) } else { None };
            let partial = vec![vec![format!("CREATE (:N {{i: {}}})", fault_txt)]];
            (stmt, prefix, partial, "unwind_merge_on_create", fault_name.to_string())
        }
        3 => {
            let nn = g.nodes.len();
            if nn > 0 {
                let kk = k % nn;
                for (i, node) in g.nodes.iter_mut().enumerate() {
                    node.labels.insert("W".into());
                    node.props.insert("k".into(), V::Int(1 + (i as i64 % 4)));
                }
                g.nodes[kk].props.insert("k".into(), if fault_kind == 1 { V::Str("a".into()) } else { V::Int(0) });
                let stmt = "MATCH (n:W) SET n.v = 10 / n.k".to_string();
                let prefix = if kk > 0 { Some(format!("MATCH (n:W) WHERE n.uid < {kk} SET n.v = 10 / n.k")) } else { None };
                (stmt, prefix, vec![], "match_set_per_node", fault_name.to_string())
            } else {
                ("MATCH (n:W) SET n.v = 10 / n.k".to_string(), None, vec![], "match_set_per_node", fault_name.to_string())
            }
        }
        4 => {
            setup.push("CREATE CONSTRAINT ON (u:U) ASSERT u.k IS UNIQUE".to_string());
            let mut vals: Vec<String> = (0..n).map(|i| format!("{}", 10 + i)).collect();
            let (stmt, prefix);
            if k > 0 {
                vals[k] = vals[0].clone();
                stmt = format!("UNWIND {} AS x CREATE (:U {{k: x}})", render_list(&vals));
                prefix = Some(format!("UNWIND {} AS x CREATE (:U {{k: x}})", render_list(&vals[..k].to_vec())));
            } else {
                setup.push("CREATE (:U {k: 10})".to_string());
                stmt = format!("UNWIND {} AS x CREATE (:U {{k: x}})", render_list(&vals));
                prefix = None;
            }
            (stmt, prefix, vec![], "unwind_create_unique", "duplicate_constrained_value".to_string())
        }
        6 => {
            // single-row SET refused by the constraint: nothing may change at all
            setup.push("CREATE CONSTRAINT ON (u:U) ASSERT u.k IS UNIQUE".to_string());
            for i in 0..(n + 1) {
                setup.push(format!("CREATE (:U {{k: {}, uid: {}, w: {}}})", 20 + i, 500 + i, i));
            }
            let victim = 500 + 1 + (k % n);
            let stmt = format!("MATCH (u:U {{uid: {victim}}}) SET u.k = 20");
            // the victim's own value is still claimed, a fresh one is free
            probes.push(format!("CREATE (:U {{k: {}, uid: 601}})", 20 + 1 + (k % n)));
            probes.push("CREATE (:U {k: 99, uid: 602})".to_string());
            probes.push("CREATE (:U {k: 20, uid: 603})".to_string());
            (stmt, None, vec![], "single_row_set_unique", "duplicate_constrained_value".to_string())
        }
        10 | 11 => {
            // single-row writes refused by a unique constraint part-way through building their
            // entities: MERGE that matches nothing and collides while creating, CREATE of a path
            // whose second node collides, MATCH..CREATE of a relationship to a colliding node,
            // MERGE..ON CREATE SET of a duplicate value
            setup.push("CREATE CONSTRAINT ON (u:U) ASSERT u.k IS UNIQUE".to_string());
            for i in 0..(n + 1) {
                setup.push(format!("CREATE (:U {{k: {}, name: 'y{}', uid: {}}})", 20 + i, i, 500 + i));
            }
            let dup = 20 + (k % (n + 1));
            // (statement, what the known absence of a statement-level rollback (KF-C05-1) may leave
            // behind: entities completed before the one that collides). The single-node MERGE
            // forms undo their own half-built node on the unchanged tree: nothing may remain.
            let (stmt, partial): (String, Vec<Vec<String>>) = match (template, t.choose(4)) {
                (10, 0) => (format!("MERGE (n:U {{k: {dup}, name: 'x'}})"), vec![]),
                (10, 1) => (format!("MERGE (n:U {{k: {dup}, name: 'x'}}) ON CREATE SET n.uid = 600 RETURN n.uid"), vec![]),
                (10, 2) => (
                    format!("MERGE (n:U {{uid: 600}}) ON CREATE SET n.name = 'x', n.k = {dup}"),
                    vec![vec!["CREATE (:U {uid: 600, name: 'x'})".to_string()], vec!["CREATE (:U {uid: 600})".to_string()]],
                ),
                (10, _) => (format!("MERGE (a:X {{uid: 600}})-[:R]->(b:U {{k: {dup}, name: 'x'}})"), vec![vec!["CREATE (:X {uid: 600})".to_string()]]),
                (_, 0) => (format!("CREATE (:X {{uid: 600}})-[:R {{rid: 1}}]->(:U {{k: {dup}, name: 'x'}})"), vec![vec!["CREATE (:X {uid: 600})".to_string()]]),
                (_, 1) => (format!("MATCH (a:U {{uid: 500}}) CREATE (a)-[:R {{rid: 1}}]->(:U {{k: {dup}, name: 'x'}})"), vec![]),
                (_, 2) => (format!("CREATE (:U {{k: 99, uid: 600}}), (:U {{k: {dup}, uid: 601}})"), vec![vec!["CREATE (:U {k: 99, uid: 600})".to_string()]]),
                (_, _) => (
                    format!("MATCH (a:U {{uid: 500}}) CREATE (a)-[:R {{rid: 1}}]->(b:X {{uid: 600}}), (b)-[:R {{rid: 2}}]->(:U {{k: {dup}}})"),
                    vec![vec!["CREATE (:X {uid: 600})".to_string()], vec!["MATCH (a:U {uid: 500}) CREATE (a)-[:R {rid: 1}]->(b:X {uid: 600})".to_string()]],
                ),
            };
            probes.push("CREATE (:U {k: 99, uid: 700})".to_string());
            probes.push(format!("CREATE (:U {{k: {dup}, uid: 701}})"));
            (stmt, None, partial, "single_row_write_refused_by_unique_constraint", "duplicate_constrained_value".to_string())
        }
        8 | 9 => {
            // SET n:U refused by one of two unique constraints on :U — the property that was
            // free must not stay reserved
            setup.push("CREATE CONSTRAINT ON (u:U) ASSERT u.k IS UNIQUE".to_string());
            setup.push("CREATE CONSTRAINT ON (u:U) ASSERT u.j IS UNIQUE".to_string());
            for i in 0..(n + 1) {
                setup.push(format!("CREATE (:U {{k: {}, j: {}, uid: {}}})", 20 + i, 40 + i, 500 + i));
            }
            // the candidate collides on exactly one of the two properties
            let collide_on_k = template == 8;
            let hit = k % (n + 1);
            let (ck, cj) = if collide_on_k { (20 + hit, 90) } else { (91, 40 + hit) };
            let other = if t.chance(1, 2) { ":X" } else { "" };
            setup.push(format!("CREATE ({other} {{k: {ck}, j: {cj}, uid: 600}})"));
            let stmt = "MATCH (x {uid: 600}) SET x:U".to_string();
            // free values stay free, claimed ones stay claimed
            let (fk, fj) = if collide_on_k { (92, 90) } else { (91, 93) };
            probes.push(format!("CREATE (:U {{k: {fk}, j: {fj}, uid: 601}})"));
            probes.push(format!("CREATE (:U {{k: {}, j: 94, uid: 602}})", 20 + hit));
            probes.push(format!("CREATE (:U {{k: 95, j: {}, uid: 603}})", 40 + hit));
            (stmt, None, vec![], "label_set_two_unique_constraints", "duplicate_constrained_value".to_string())
        }
        5 => {
            setup.push("CREATE CONSTRAINT ON (u:U) ASSERT u.k IS UNIQUE".to_string());
            for i in 0..n {
                setup.push(format!("CREATE (:U {{k: {}, uid: {}}})", 20 + i, 500 + i));
            }
            let stmt = "MATCH (u:U) SET u.k = 7".to_string();
            let prefix = if n > 1 { Some("MATCH (u:U) WHERE u.uid = 500 SET u.k = 7".to_string()) } else { None };
            (stmt, prefix, vec![], "match_set_unique", "duplicate_constrained_value".to_string())
        }
        _ => {
            let faulty = with_fault(&items, k, &fault_txt);
            let stmt = format!("UNWIND {} AS x WITH x, 10 / x AS y CREATE (:N {{v: y, i: x}})", render_list(&faulty));
            let prefix = if k > 0 { Some(format!("UNWIND {} AS x WITH x, 10 / x AS y CREATE (:N {{v: y, i: x}})", render_list(&items[..k].to_vec()))) } else { None };
            (stmt, prefix, vec![], "unwind_with_create", fault_name.to_string())
        }
    };
    Case { g, setup, stmt, prefix, partial, k, n, template: tname.to_string(), fault: fname, probes }
}

fn fresh(case: &Case) -> Result<GraphStore, String> {
    let built = build_store(&case.g);
    let mut store = built.store;
    for s in &case.setup {
        match c04::run_write(&mut store, s) {
            Ok(Ok(_)) => {}
            Ok(Err(e)) => return Err(format!("setup `{s}` refused: {e}")),
            Err(p) => return Err(format!("setup `{s}` panicked: {p}")),
        }
    }
    Ok(store)
}

fn full_state(store: &GraphStore) -> (String, Vec<String>) {
    // the row store (through the merged view) and, separately, what the column store holds:
    // queries read the column first, so a value left only there is visible to users
    let mut s = vcheck::dump::dump_with_ids(store).render();
    for id in vcheck::dump::live_node_ids(store) {
        let idx = id.as_u64() as usize;
        let mut keys = store.node_columns.get_property_keys(idx);
        keys.sort();
        for k in keys {
            let v = store.node_columns.get_property(idx, &k);
            if !v.is_null() {
                s.push_str(&format!("C n{} {}={}\n", id.as_u64(), k, vcheck::values::canon(&v)));
            }
        }
    }
    (s, vcheck::dump::schema_dump(store))
}

/// index-backed lookups must agree with what the dump says about property v of :N nodes
fn index_consistent(store: &GraphStore) -> Result<(), String> {
    let d = vcheck::dump::dump_with_ids(store);
    let mut by_val: BTreeMap<String, usize> = BTreeMap::new();
    for n in &d.nodes {
        if n.labels.iter().any(|l| l == "N") {
            if let Some(v) = n.props.get("v") {
                if let Some(rest) = v.strip_prefix('I') {
                    *by_val.entry(rest.to_string()).or_insert(0) += 1;
                }
            }
        }
    }
    let mut probe: Vec<String> = by_val.keys().cloned().collect();
    for extra in ["1", "2", "3", "5", "10"] {
        if !probe.contains(&extra.to_string()) {
            probe.push(extra.to_string());
        }
    }
    for v in probe {
        let q = format!("MATCH (n:N) WHERE n.v = {v} RETURN count(n) AS c");
        let r = catch(|| -> Result<i64, String> {
            let pq = parse_query(&q).map_err(|e| e.to_string())?;
            let b = QueryExecutor::new(store).execute(&pq).map_err(|e| e.to_string())?;
            match b.records.first().and_then(|r| r.get("c")) {
                Some(samyama::query::Value::Property(samyama::graph::PropertyValue::Integer(i))) => Ok(*i),
                other => Err(format!("unexpected count cell {other:?}")),
            }
        });
        match r {
            Ok(Ok(c)) => {
                let want = by_val.get(&v).copied().unwrap_or(0) as i64;
                if c != want {
                    return Err(format!("`{q}` answers {c} but the graph holds {want} such nodes (index out of step with the graph)"));
                }
            }
            Ok(Err(_)) => {}
            Err(p) => return Err(format!("`{q}` panicked: {p}")),
        }
    }
    Ok(())
}

pub enum Verdict {
    /// statement did not fail (fault not effective): trivial
    NoFailure,
    /// failed and changed nothing; bool = at least one row preceded the fault
    Held(bool),
    Known(&'static str),
    SetupRefused,
    Violation(String),
}

pub fn judge(case: &Case, kf_active: bool) -> Verdict {
    let mut store = match fresh(case) {
        Ok(s) => s,
        Err(_) => return Verdict::SetupRefused,
    };
    let before = full_state(&store);
    let r = match c04::run_write(&mut store, &case.stmt) {
        Err(p) => return Verdict::Violation(format!("`{}` panicked: {p}", case.stmt)),
        Ok(r) => r,
    };
    let err = match r {
        Ok(_) => return Verdict::NoFailure,
        Err(e) => e,
    };
    let after = full_state(&store);
    if after == before {
        if let Err(m) = index_consistent(&store) {
            return Verdict::Violation(format!("after the failed `{}`: {m}", case.stmt));
        }
        if !case.probes.is_empty() {
            let mut twin = match fresh(case) {
                Ok(t) => t,
                Err(_) => return Verdict::SetupRefused,
            };
            let view = |st: &GraphStore| (vcheck::dump::dump_by_uid(st, "uid", "rid", false).render(), vcheck::dump::schema_dump(st));
            for p in &case.probes {
                let a = c04::run_write(&mut store, p);
                let b = c04::run_write(&mut twin, p);
                let class = |r: &Result<Result<norm::EngineRows, String>, String>| match r {
                    Ok(Ok(_)) => "accepted",
                    Ok(Err(_)) => "refused",
                    Err(_) => "panicked",
                };
                if class(&a) != class(&b) || class(&a) == "panicked" {
                    return Verdict::Violation(format!(
                        "`{}` failed ({}) and left the dump unchanged, but afterwards `{p}` is {} ({}) while on a store that never ran the failed statement it is {}",
                        case.stmt,
                        truncate(&err, 100),
                        class(&a),
                        match &a { Ok(Err(e)) | Err(e) => truncate(e, 100), _ => String::new() },
                        class(&b)
                    ));
                }
                if view(&store) != view(&twin) {
                    return Verdict::Violation(format!("`{}` failed and left the dump unchanged, but after `{p}` the graph differs from the one on a store that never ran the failed statement", case.stmt));
                }
            }
        }
        return Verdict::Held(case.k > 0 || case.template == "single_row_set_unique" || case.template == "label_set_two_unique_constraints" || case.template == "single_row_write_refused_by_unique_constraint");
    }
    if kf_active {
        // no statement-level atomicity: the state equals "rows before the failing one applied"
        let mut candidates: Vec<Vec<String>> = vec![vec![]];
        candidates.extend(case.partial.iter().cloned());
        for extra in candidates {
            if case.prefix.is_none() && extra.is_empty() {
                continue;
            }
            if let Ok(mut twin) = fresh(case) {
                let mut ok = true;
                if let Some(p) = &case.prefix {
                    ok = matches!(c04::run_write(&mut twin, p), Ok(Ok(_)));
                }
                for s in &extra {
                    ok = ok && matches!(c04::run_write(&mut twin, s), Ok(Ok(_)));
                }
                if ok && full_state(&twin) == after {
                    return Verdict::Known("KF-C05-1");
                }
            }
        }
    }
    let a: std::collections::BTreeSet<&str> = after.0.lines().collect();
    let b: std::collections::BTreeSet<&str> = before.0.lines().collect();
    let mut d = String::new();
    for l in a.difference(&b) {
        d.push_str(&format!("  + {l}\n"));
    }
    for l in b.difference(&a) {
        d.push_str(&format!("  - {l}\n"));
    }
    if after.1 != before.1 {
        d.push_str(&format!("  schema before {:?} after {:?}\n", before.1, after.1));
    }
    Verdict::Violation(format!("`{}` failed ({}) but changed the graph (fault at row {} of {}):\n{d}", case.stmt, truncate(&err, 120), case.k, case.n))
}

pub fn run(args: &Args) {
    let mut ev = Evidence::new(
        args,
        "fault_enumeration",
        "graph x multi-row write statement (UNWIND..CREATE node/path, UNWIND..MERGE..ON CREATE SET, MATCH..SET per node, UNWIND..CREATE and MATCH..SET under a unique constraint, SET n:Label under two unique constraints, single-row MERGE / CREATE path / MATCH..CREATE refused by a unique constraint while building their entities, UNWIND..WITH..CREATE) with one fault planted at a generated row position k of n (integer division by zero, operand type error, duplicate constrained value), with and without a property index; if the statement returns an error the id-preserving dump (nodes, labels, typed properties in both stores, relationships), index and constraint lists and index-backed lookups must be exactly as before, and follow-up CREATEs probing free and claimed constrained values must be accepted/refused exactly as on a twin store that never ran the failed statement. Non-trivial = the statement failed and at least one row precedes the fault; distinct = distinct (graph, setup, statement).",
    );
    ev.assume("a statement the engine executes despite the planted fault is counted as trivial, not as a violation");
    let kf = Known::load(args);
    if let Some(p) = &args.replay {
        let case: Case = serde_json::from_value(load_replay(p)).expect("replay case");
        ev.case();
        ev.sample(json!(case));
        ev.nontrivial(&"replay");
        ev.nontrivial(&case.stmt);
        match judge(&case, false) {
            Verdict::Violation(m) => {
                report_violation(&mut ev, &json!(case), &m);
            }
            Verdict::NoFailure => println!("replay: statement did not fail"),
            Verdict::Held(_) => println!("replay: failed and changed nothing"),
            Verdict::Known(k) => println!("replay: known {k}"),
            Verdict::SetupRefused => println!("replay: setup refused"),
        }
        finish(&ev);
    }
    let mut active = false;
    if let Some(w) = witness_case(&kf, "KF-C05-1") {
        let case: Case = serde_json::from_value(w).expect("witness");
        let fails = matches!(judge(&case, false), Verdict::Violation(_));
        active = kf.witness_result(&mut ev, "KF-C05-1", fails);
    }
    if std::env::var("VERIF_ASSUME_KF").is_ok() {
        active = true;
    }
    for (p, c) in corpus_cases("C05") {
        let case: Case = serde_json::from_value(c).expect("corpus");
        ev.case();
        ev.class("regression_corpus");
        if let Verdict::Violation(m) = judge(&case, active) {
            report_violation(&mut ev, &json!(case), &format!("{m} (corpus {})", p.display()));
            finish(&ev);
        }
    }
    let n = std::env::var("VERIF_CASES").ok().and_then(|s| s.parse().ok()).unwrap_or(args.tier.pick(100_000u32, 3_000_000u32));
    let evc = RefCell::new(&mut ev);
    let res = search(args.seed, n, &tape_strategy(200), |tape| {
        let case = build(tape);
        let mut e = evc.borrow_mut();
        e.case();
        e.class(&format!("template:{}", case.template));
        match judge(&case, active) {
            Verdict::NoFailure => {
                e.class(&format!("not_failing:{}:{}", case.template, case.fault));
                Ok(())
            }
            Verdict::SetupRefused => {
                e.class("setup_refused");
                Ok(())
            }
            Verdict::Held(nt) => {
                e.class(&format!("held:{}:{}", case.template, case.fault));
                e.refusal();
                if nt {
                    e.nontrivial(&format!("{:?}|{:?}|{}", serde_json::to_string(&case.g).unwrap(), case.setup, case.stmt));
                    e.class(&format!("fault_at_row:{}", case.k.min(4)));
                    if e.want_sample() {
                        e.sample(json!({"setup": case.setup, "stmt": case.stmt, "k": case.k, "n": case.n}));
                    }
                }
                Ok(())
            }
            Verdict::Known(k) => {
                e.kf_hit(k);
                e.refusal();
                e.nontrivial(&format!("{:?}|{:?}|{}", serde_json::to_string(&case.g).unwrap(), case.setup, case.stmt));
                e.class(&format!("known:{}:{}", case.template, case.fault));
                if e.want_sample() && e.evaluations % 797 == 1 {
                    e.sample(json!({"setup": case.setup, "stmt": case.stmt, "k": case.k, "n": case.n, "known_finding": k}));
                }
                Ok(())
            }
            Verdict::Violation(m) => {
                e.frozen = true;
                Err(m)
            }
        }
    });
    drop(evc);
    if let Some((tape, msg)) = res {
        let case = build(&tape);
        let msg = match judge(&case, active) {
            Verdict::Violation(m) => m,
            _ => msg,
        };
        report_violation(&mut ev, &json!(case), &msg);
    }
    finish(&ev);
}
