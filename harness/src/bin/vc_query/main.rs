//! vc_query: C01 C02 C03 C04 C05 C35 (DESIGN §4).
mod eval;
mod gen;
mod model;
mod norm;

use eval::{Quirks, RefErr};
use gen::{QGen, Tape};
use model::*;
use norm::{compare, norm_batch, ColMode, IdMap};
use proptest::prelude::*;
use samyama::query::{parse_query, QueryExecutor};
use serde_json::json;
use std::cell::RefCell;
use std::collections::BTreeMap;
use vcheck::*;

mod c01;
mod c02;
mod c03;
mod c04;
mod c05;
mod c35;

fn main() {
    let args = parse_args();
    quiet_panics();
    start_watchdog(args.tier.pick(1500, 7200));
    match args.prop.as_str() {
        "C01" => c01::run(&args),
        "C02" => c02::run(&args),
        "C03" => c03::run(&args),
        "C04" => c04::run(&args),
        "C05" => c05::run(&args),
        "C35" => c35::run(&args),
        "PROBE" => probe(&args),
        p => {
            eprintln!("vc_query does not serve {p} yet");
            std::process::exit(2)
        }
    }
}

/// developer aid: `vc_query PROBE --replay case.json` with VERIF_PROBE_QUERIES="q1;;q2" runs
/// query texts on the case's graph and prints the engine's rows (writes go through execute_mut)
fn probe(args: &Args) {
    let case = load_replay(args.replay.as_ref().expect("--replay"));
    let g: RGraph = serde_json::from_value(case["graph"].clone()).expect("graph");
    let qs = std::env::var("VERIF_PROBE_QUERIES").unwrap_or_default();
    let same_store = std::env::var("VERIF_PROBE_SAME_STORE").is_ok();
    let mut shared = build_store(&g);
    for text in qs.split(";;").filter(|s| !s.trim().is_empty()) {
        let mut fresh_store = build_store(&g);
        let built = if same_store { &mut shared } else { &mut fresh_store };
        let eng = samyama::query::QueryEngine::new();
        let out = catch(|| {
            let r = if text.to_uppercase().contains("CREATE") || text.to_uppercase().contains("SET ") || text.to_uppercase().contains("DELETE") || text.to_uppercase().contains("MERGE") || text.to_uppercase().contains("REMOVE") {
                eng.execute_mut(text, &mut built.store, "default").map_err(|e| e.to_string())
            } else {
                eng.execute(text, &built.store).map_err(|e| e.to_string())
            };
            r.map(|b| norm_batch(&b, &IdMap { nodes: &built.node_ids, edges: &built.edge_ids }))
        });
        println!("> {text}");
        match out {
            Ok(Ok(rows)) => {
                println!("  columns {:?}", rows.columns);
                for r in rows.rows {
                    println!("  {}", r.iter().map(|v| v.canon()).collect::<Vec<_>>().join(" | "));
                }
            }
            Ok(Err(e)) => println!("  refused: {e}"),
            Err(p) => println!("  PANIC: {p}"),
        }
    }
}

pub fn tape_strategy(max: usize) -> impl Strategy<Value = Vec<u16>> {
    proptest::collection::vec(any::<u16>(), 0..max)
}

/// outcome classes of one engine call
pub enum EngineOut {
    Rows(norm::EngineRows),
    Refused(String),
    Panicked(String),
}

pub fn run_engine_read(built: &Built, text: &str) -> EngineOut {
    let r = catch(|| -> Result<norm::EngineRows, String> {
        let q = parse_query(text).map_err(|e| format!("parse: {e}"))?;
        let ex = QueryExecutor::new(&built.store);
        let b = ex.execute(&q).map_err(|e| format!("exec: {e}"))?;
        Ok(norm_batch(&b, &IdMap { nodes: &built.node_ids, edges: &built.edge_ids }))
    });
    match r {
        Ok(Ok(rows)) => EngineOut::Rows(rows),
        Ok(Err(e)) => EngineOut::Refused(e),
        Err(p) => EngineOut::Panicked(p),
    }
}

pub fn ref_read(g: &RGraph, q: &Query, quirks: &Quirks) -> Result<eval::RefResult, RefErr> {
    let mut g2 = g.clone();
    eval::run(&mut g2, q, quirks, &BTreeMap::new()).map(|o| o.result)
}

pub fn modes_json(m: &[ColMode]) -> serde_json::Value {
    json!(m.iter().map(|x| if *x == ColMode::BagList { "bag" } else { "exact" }).collect::<Vec<_>>())
}
pub fn modes_from(v: &serde_json::Value) -> Vec<ColMode> {
    v.as_array().map(|a| a.iter().map(|x| if x == "bag" { ColMode::BagList } else { ColMode::Exact }).collect()).unwrap_or_default()
}

thread_local! {
    pub static SURVEY: RefCell<Vec<String>> = RefCell::new(Vec::new());
}
pub fn survey_limit() -> usize {
    std::env::var("VERIF_SURVEY").ok().and_then(|s| s.parse().ok()).unwrap_or(0)
}

pub fn build_case(tape: &[u16]) -> (RGraph, Query, Vec<ColMode>, Vec<&'static str>) {
    let mut t = Tape::new(tape);
    let g = gen::gen_graph(&mut t);
    let mut qg = QGen::new(&mut t);
    let (q, modes) = qg.read_query();
    let tags = qg.f.tags.clone();
    (g, q, modes, tags)
}
