//! C04 — write statements have exactly their openCypher effect
//! (and C05's fault-planted variants reuse the statement builders).
use crate::*;
use samyama::query::MutQueryExecutor;

pub struct Case {
    pub g: RGraph,
    pub stmts: Vec<(Query, &'static str)>,
}

impl Case {
    pub fn to_json(&self) -> serde_json::Value {
        json!({"graph": self.g, "statements": self.stmts.iter().map(|(q, _)| q).collect::<Vec<_>>(), "texts": self.stmts.iter().map(|(q, _)| render_query(q)).collect::<Vec<_>>()})
    }
    pub fn from_json(v: &serde_json::Value) -> Case {
        let qs: Vec<Query> = serde_json::from_value(v["statements"].clone()).expect("statements");
        Case { g: serde_json::from_value(v["graph"].clone()).expect("graph"), stmts: qs.into_iter().map(|q| (q, "replay")).collect() }
    }
}

fn lit(v: V) -> E {
    E::Lit(v)
}
fn node_by_uid(var: &str, uid: i64) -> PathPat {
    PathPat { name: None, start: NodePat { var: Some(var.into()), labels: vec![], props: vec![("uid".into(), lit(V::Int(uid)))] }, steps: vec![], shortest: Shortest::No }
}
fn bare(var: &str, labels: Vec<String>) -> PathPat {
    PathPat { name: None, start: NodePat { var: Some(var.into()), labels, props: vec![] }, steps: vec![], shortest: Shortest::No }
}
fn ret_items(items: Vec<(E, &str)>) -> Clause {
    Clause::Return { proj: Proj { distinct: false, items: items.into_iter().map(|(e, a)| Item { expr: e, alias: Some(a.to_string()) }).collect(), order: vec![], skip: None, limit: None } }
}
fn single(clauses: Vec<Clause>) -> Query {
    Query { parts: vec![clauses], union_all: false }
}

pub struct WGen<'a, 'b> {
    pub t: &'a mut Tape<'b>,
    pub next_uid: i64,
    pub next_rid: i64,
}

impl<'a, 'b> WGen<'a, 'b> {
    fn label(&mut self) -> String {
        gen::LABELS[self.t.choose(3)].to_string()
    }
    fn ty(&mut self) -> String {
        gen::TYPES[self.t.choose(3)].to_string()
    }
    fn some_uid(&mut self, g_nodes: usize) -> i64 {
        // existing uids are 0..g_nodes, created ones 100..next_uid; sometimes a missing one
        let created = (self.next_uid - 100) as usize;
        let total = g_nodes + created + 1;
        let i = self.t.choose(total);
        if i < g_nodes {
            i as i64
        } else if i < g_nodes + created {
            100 + (i - g_nodes) as i64
        } else {
            999
        }
    }
    fn node_pred(&mut self, var: &str) -> Option<E> {
        match self.t.choose(5) {
            0 => None,
            1 => Some(E::Cmp(CmpOp::Eq, Box::new(E::Prop(var.into(), "k".into())), Box::new(lit(V::Int(self.t.choose(4) as i64))))),
            2 => Some(E::HasLabel(var.into(), self.label())),
            3 => Some(E::IsNotNull(Box::new(E::Prop(var.into(), "q".into())))),
            _ => Some(E::Cmp(CmpOp::Lt, Box::new(E::Prop(var.into(), "uid".into())), Box::new(lit(V::Int(self.t.choose(4) as i64 + 1))))),
        }
    }

    /// one write statement; `n_nodes` = nodes of the initial graph (for uid picking)
    pub fn statement(&mut self, n_nodes: usize) -> (Query, &'static str) {
        let which = self.t.weighted(&[3, 2, 3, 3, 2, 2, 3, 2, 2, 2, 2, 2, 2, 1, 2]);
        match which {
            0 => {
                // CREATE node with literal and expression properties
                let uid = self.next_uid;
                self.next_uid += 1;
                let mut props = vec![("uid".to_string(), lit(V::Int(uid)))];
                if let Some(v) = gen::value_for("k", self.t) {
                    props.push(("k".into(), lit(v)));
                }
                if self.t.chance(1, 3) {
                    props.push(("q".into(), E::Arith(ArOp::Add, Box::new(lit(V::Int(1))), Box::new(lit(V::Int(self.t.choose(3) as i64))))));
                }
                if self.t.chance(1, 4) {
                    props.push(("z".into(), lit(V::Null)));
                }
                let labels = match self.t.choose(3) {
                    0 => vec![],
                    1 => vec![self.label()],
                    _ => vec!["A".to_string(), "B".to_string()],
                };
                let pat = PathPat { name: None, start: NodePat { var: Some("n".into()), labels, props }, steps: vec![], shortest: Shortest::No };
                let mut cl = vec![Clause::Create { patterns: vec![pat] }];
                if self.t.chance(1, 2) {
                    cl.push(ret_items(vec![(E::Prop("n".into(), "uid".into()), "c0"), (E::Prop("n".into(), "k".into()), "c1")]));
                }
                (single(cl), "create_node")
            }
            1 => {
                // CREATE a path of two new nodes
                let (u1, u2) = (self.next_uid, self.next_uid + 1);
                self.next_uid += 2;
                let rid = self.next_rid;
                self.next_rid += 1;
                let dir = if self.t.chance(1, 2) { Dir::Out } else { Dir::In };
                let pat = PathPat {
                    name: None,
                    start: NodePat { var: Some("a".into()), labels: vec![self.label()], props: vec![("uid".into(), lit(V::Int(u1)))] },
                    steps: vec![(RelPat { var: Some("r".into()), types: vec![self.ty()], dir, props: vec![("rid".into(), lit(V::Int(rid))), ("w".into(), lit(V::Int(self.t.choose(4) as i64)))], varlen: None }, NodePat { var: Some("b".into()), labels: vec![], props: vec![("uid".into(), lit(V::Int(u2)))] })],
                    shortest: Shortest::No,
                };
                let mut patterns = vec![pat];
                let mut tag = "create_path";
                if self.t.chance(1, 3) {
                    // a second comma-separated path that starts at a node the first one created
                    tag = "create_shared_variable_paths";
                    let rid2 = self.next_rid;
                    self.next_rid += 1;
                    let uid3 = self.next_uid;
                    self.next_uid += 1;
                    let from = if self.t.chance(1, 2) { "a" } else { "b" };
                    patterns.push(PathPat {
                        name: None,
                        start: NodePat { var: Some(from.into()), labels: vec![], props: vec![] },
                        steps: vec![(RelPat { var: None, types: vec![self.ty()], dir: Dir::Out, props: vec![("rid".into(), lit(V::Int(rid2)))], varlen: None }, NodePat { var: Some("c".into()), labels: vec![], props: vec![("uid".into(), lit(V::Int(uid3)))] })],
                        shortest: Shortest::No,
                    });
                }
                (single(vec![Clause::Create { patterns }, ret_items(vec![(E::Prop("r".into(), "rid".into()), "c0"), (E::Func("type".into(), vec![E::Var("r".into())]), "c1")])]), tag)
            }
            2 => {
                // MATCH two nodes, CREATE a relationship between them
                let (x, y) = (self.some_uid(n_nodes), self.some_uid(n_nodes));
                let rid = self.next_rid;
                self.next_rid += 1;
                let dir = if self.t.chance(1, 2) { Dir::Out } else { Dir::In };
                let pat = PathPat {
                    name: None,
                    start: NodePat { var: Some("a".into()), labels: vec![], props: vec![] },
                    steps: vec![(RelPat { var: None, types: vec![self.ty()], dir, props: vec![("rid".into(), lit(V::Int(rid)))], varlen: None }, NodePat { var: Some("b".into()), labels: vec![], props: vec![] })],
                    shortest: Shortest::No,
                };
                (single(vec![Clause::Match { optional: false, patterns: vec![node_by_uid("a", x), node_by_uid("b", y)], where_: None }, Clause::Create { patterns: vec![pat] }]), "match_create_rel")
            }
            3 => {
                // MERGE node with ON CREATE / ON MATCH
                let k = self.t.choose(4) as i64;
                let l = self.label();
                // one label, or two (a node carrying only one of them must not match)
                let labels = if self.t.chance(1, 3) {
                    let l2 = gen::LABELS[(gen::LABELS.iter().position(|x| *x == l).unwrap_or(0) + 1 + self.t.choose(2)) % 3].to_string();
                    vec![l, l2]
                } else {
                    vec![l]
                };
                let pat = PathPat { name: None, start: NodePat { var: Some("n".into()), labels, props: vec![("k".into(), lit(V::Int(k)))] }, steps: vec![], shortest: Shortest::No };
                let uid = self.next_uid;
                self.next_uid += 1;
                let on_create = vec![SetItem::Prop("n".into(), "uid".into(), lit(V::Int(uid))), SetItem::Prop("n".into(), "c".into(), lit(V::Int(1)))];
                let on_match = if self.t.chance(1, 2) { vec![SetItem::Prop("n".into(), "m".into(), lit(V::Int(1)))] } else { vec![] };
                let mut cl = vec![Clause::Merge { pattern: pat, on_create, on_match }];
                if self.t.chance(1, 2) {
                    cl.push(ret_items(vec![(E::Prop("n".into(), "k".into()), "c0"), (E::Prop("n".into(), "c".into()), "c1")]));
                }
                (single(cl), "merge_node")
            }
            4 => {
                // MERGE relationship between bound nodes
                let (x, y) = (self.some_uid(n_nodes), self.some_uid(n_nodes));
                let rid = self.next_rid;
                self.next_rid += 1;
                let dir = [Dir::Out, Dir::In, Dir::Both][self.t.choose(3)].clone();
                let pat = PathPat {
                    name: None,
                    start: NodePat { var: Some("a".into()), labels: vec![], props: vec![] },
                    steps: vec![(RelPat { var: Some("r".into()), types: vec![self.ty()], dir, props: vec![], varlen: None }, NodePat { var: Some("b".into()), labels: vec![], props: vec![] })],
                    shortest: Shortest::No,
                };
                let on_create = vec![SetItem::Prop("r".into(), "rid".into(), lit(V::Int(rid)))];
                let on_match = if self.t.chance(1, 2) { vec![SetItem::Prop("r".into(), "m".into(), lit(V::Int(1)))] } else { vec![] };
                (single(vec![Clause::Match { optional: false, patterns: vec![node_by_uid("a", x), node_by_uid("b", y)], where_: None }, Clause::Merge { pattern: pat, on_create, on_match }]), "merge_rel")
            }
            5 => {
                // UNWIND-driven MERGE: earlier rows create what later rows match
                let n = 1 + self.t.choose(4);
                let mut items = Vec::new();
                for _ in 0..n {
                    items.push(V::Int(self.t.choose(3) as i64 + 5));
                }
                let l = self.label();
                let pat = PathPat { name: None, start: NodePat { var: Some("n".into()), labels: vec![l], props: vec![("k".into(), E::Var("x".into()))] }, steps: vec![], shortest: Shortest::No };
                let on_create = vec![SetItem::Prop("n".into(), "c".into(), lit(V::Int(1)))];
                let on_match = vec![SetItem::Prop("n".into(), "m".into(), lit(V::Int(1)))];
                (single(vec![Clause::Unwind { expr: lit(V::List(items)), var: "x".into() }, Clause::Merge { pattern: pat, on_create, on_match }, ret_items(vec![(E::Prop("n".into(), "k".into()), "c0")])]), "unwind_merge")
            }
            6 => {
                // MATCH … SET property (literal, arithmetic on own property, null)
                let w = self.node_pred("n");
                let item = match self.t.choose(4) {
                    0 => SetItem::Prop("n".into(), "z".into(), lit(V::Int(self.t.choose(5) as i64))),
                    1 => SetItem::Prop("n".into(), "k".into(), E::Arith(ArOp::Add, Box::new(E::Prop("n".into(), "k".into())), Box::new(lit(V::Int(1))))),
                    2 => SetItem::Prop("n".into(), "s".into(), lit(V::Null)),
                    _ => SetItem::Prop("n".into(), "p".into(), lit(gen::some_value_for("p", self.t))),
                };
                let mut cl = vec![Clause::Match { optional: false, patterns: vec![bare("n", vec![])], where_: w }, Clause::Set { items: vec![item] }];
                if self.t.chance(1, 2) {
                    cl.push(ret_items(vec![(E::Prop("n".into(), "uid".into()), "c0"), (E::Prop("n".into(), "k".into()), "c1"), (E::Prop("n".into(), "z".into()), "c2")]));
                }
                (single(cl), "set_property")
            }
            7 => {
                // SET += / = with a literal map
                let w = self.node_pred("n");
                let mut m = BTreeMap::new();
                m.insert("z".to_string(), V::Int(self.t.choose(3) as i64));
                if self.t.chance(1, 2) {
                    m.insert("s".to_string(), V::Null);
                }
                let item = if self.t.chance(2, 3) { SetItem::Merge("n".into(), lit(V::Map(m))) } else { SetItem::Replace("n".into(), lit(V::Map(m))) };
                (single(vec![Clause::Match { optional: false, patterns: vec![bare("n", vec![])], where_: w }, Clause::Set { items: vec![item] }]), "set_map")
            }
            8 => {
                let w = self.node_pred("n");
                let l = self.label();
                let c = if self.t.chance(1, 2) { Clause::Set { items: vec![SetItem::Labels("n".into(), vec![l])] } } else { Clause::Remove { items: vec![RemoveItem::Labels("n".into(), vec![l])] } };
                (single(vec![Clause::Match { optional: false, patterns: vec![bare("n", vec![])], where_: w }, c, ret_items(vec![(E::Prop("n".into(), "uid".into()), "c0")])]), "label_change")
            }
            9 => {
                let w = self.node_pred("n");
                let key = ["p", "q", "k", "s"][self.t.choose(4)];
                (single(vec![Clause::Match { optional: false, patterns: vec![bare("n", vec![])], where_: w }, Clause::Remove { items: vec![RemoveItem::Prop("n".into(), key.into())] }]), "remove_property")
            }
            10 => {
                // DETACH DELETE / DELETE of nodes
                let w = self.node_pred("n");
                let detach = self.t.chance(1, 2);
                (single(vec![Clause::Match { optional: false, patterns: vec![bare("n", vec![])], where_: w }, Clause::Delete { detach, exprs: vec![E::Var("n".into())] }]), if detach { "detach_delete" } else { "delete_node" })
            }
            11 => {
                // relationship writes
                let pat = PathPat {
                    name: None,
                    start: NodePat { var: Some("a".into()), labels: vec![], props: vec![] },
                    steps: vec![(RelPat { var: Some("r".into()), types: if self.t.chance(1, 2) { vec![self.ty()] } else { vec![] }, dir: Dir::Out, props: vec![], varlen: None }, NodePat { var: Some("b".into()), labels: vec![], props: vec![] })],
                    shortest: Shortest::No,
                };
                let w = if self.t.chance(1, 2) { Some(E::Cmp(CmpOp::Eq, Box::new(E::Prop("r".into(), "w".into())), Box::new(lit(V::Int(self.t.choose(4) as i64))))) } else { None };
                let c = match self.t.choose(3) {
                    0 => Clause::Delete { detach: false, exprs: vec![E::Var("r".into())] },
                    1 => Clause::Set { items: vec![SetItem::Prop("r".into(), "w".into(), lit(V::Int(7)))] },
                    _ => Clause::Remove { items: vec![RemoveItem::Prop("r".into(), "w".into())] },
                };
                (single(vec![Clause::Match { optional: false, patterns: vec![pat], where_: w }, c]), "rel_write")
            }
            12 => {
                // write after WITH
                let proj = Proj { distinct: false, items: vec![Item { expr: E::Var("n".into()), alias: None }], order: vec![], skip: None, limit: None };
                let w = Some(E::Cmp(CmpOp::Ge, Box::new(E::Prop("n".into(), "uid".into())), Box::new(lit(V::Int(self.t.choose(3) as i64)))));
                (single(vec![Clause::Match { optional: false, patterns: vec![bare("n", vec![])], where_: None }, Clause::With { proj, where_: w }, Clause::Set { items: vec![SetItem::Prop("n".into(), "v".into(), lit(V::Int(1)))] }]), "with_then_set")
            }
            13 => {
                // UNWIND … CREATE
                let n = self.t.choose(4);
                let items: Vec<V> = (0..n).map(|i| V::Int(i as i64)).collect();
                let l = self.label();
                let pat = PathPat { name: None, start: NodePat { var: None, labels: vec![l], props: vec![("k".into(), E::Var("x".into())), ("made".into(), lit(V::Int(1)))] }, steps: vec![], shortest: Shortest::No };
                (single(vec![Clause::Unwind { expr: lit(V::List(items)), var: "x".into() }, Clause::Create { patterns: vec![pat] }]), "unwind_create")
            }
            _ => {
                // MATCH (a) CREATE (a)-[:T]->(new)
                let x = self.some_uid(n_nodes);
                let uid = self.next_uid;
                self.next_uid += 1;
                let rid = self.next_rid;
                self.next_rid += 1;
                let pat = PathPat {
                    name: None,
                    start: NodePat { var: Some("a".into()), labels: vec![], props: vec![] },
                    steps: vec![(RelPat { var: None, types: vec![self.ty()], dir: Dir::Out, props: vec![("rid".into(), lit(V::Int(rid)))], varlen: None }, NodePat { var: Some("m".into()), labels: vec![self.label()], props: vec![("uid".into(), lit(V::Int(uid)))] })],
                    shortest: Shortest::No,
                };
                let mut patterns = vec![pat];
                let mut tag = "match_create_node";
                // further comma-separated paths that continue from a variable the same CREATE introduced
                if self.t.chance(1, 2) {
                    tag = "match_create_shared_variable_paths";
                    let rid2 = self.next_rid;
                    self.next_rid += 1;
                    let dir = if self.t.chance(1, 3) { Dir::In } else { Dir::Out };
                    let end = if self.t.chance(1, 3) {
                        // back to the matched node
                        NodePat { var: Some("a".into()), labels: vec![], props: vec![] }
                    } else {
                        let uid2 = self.next_uid;
                        self.next_uid += 1;
                        NodePat { var: Some("d".into()), labels: if self.t.chance(1, 2) { vec![self.label()] } else { vec![] }, props: vec![("uid".into(), lit(V::Int(uid2)))] }
                    };
                    patterns.push(PathPat {
                        name: None,
                        start: NodePat { var: Some("m".into()), labels: vec![], props: vec![] },
                        steps: vec![(RelPat { var: None, types: vec![self.ty()], dir, props: vec![("rid".into(), lit(V::Int(rid2)))], varlen: None }, end)],
                        shortest: Shortest::No,
                    });
                }
                (single(vec![Clause::Match { optional: false, patterns: vec![node_by_uid("a", x)], where_: None }, Clause::Create { patterns }, ret_items(vec![(E::Prop("m".into(), "uid".into()), "c0")])]), tag)
            }
        }
    }
}

pub fn build(tape: &[u16]) -> Case {
    let mut t = Tape::new(tape);
    let g = gen::gen_graph(&mut t);
    let n_nodes = g.nodes.len();
    let n = 1 + t.choose(5);
    let mut wg = WGen { t: &mut t, next_uid: 100, next_rid: 100 };
    let mut stmts = Vec::new();
    for _ in 0..n {
        stmts.push(wg.statement(n_nodes));
    }
    Case { g, stmts }
}

pub fn run_write(store: &mut samyama::graph::GraphStore, text: &str) -> Result<Result<norm::EngineRows, String>, String> {
    catch(|| -> Result<norm::EngineRows, String> {
        let q = parse_query(text).map_err(|e| format!("parse: {e}"))?;
        let mut ex = MutQueryExecutor::new(store, "default".to_string());
        let b = ex.execute(&q).map_err(|e| format!("exec: {e}"))?;
        Ok(norm_batch(&b, &IdMap { nodes: &[], edges: &[] }))
    })
}

#[derive(Default)]
pub struct Stats {
    pub changed: usize,
    pub required_refusals: usize,
    pub refused: Vec<String>,
    pub known: Vec<&'static str>,
    pub stopped_on_c05: bool,
}

#[derive(Default, Clone)]
pub struct Active {
    pub delete_detaches: bool,
    pub merge_first_match_only: bool,
    pub merge_ltr: bool,
}

/// Ok(stats) or Err(violation message)
pub fn judge(case: &Case, kf: &Active) -> Result<Stats, String> {
    let built = build_store(&case.g);
    let mut store = built.store;
    let mut model = case.g.clone();
    let mut st = Stats::default();
    let none = BTreeMap::new();
    for (step, (q, _tmpl)) in case.stmts.iter().enumerate() {
        let text = render_query(q);
        let mut next = model.clone();
        let spec = eval::run(&mut next, q, &Quirks::default(), &none);
        let before = store_dump(&store);
        let eng = run_write(&mut store, &text).map_err(|p| format!("step {step}: engine panicked on `{text}`: {p}"))?;
        let after = store_dump(&store);
        match (spec, eng) {
            (Err(RefErr::Unsupported(_)), _) => {
                // outside the modelled fragment: cannot continue this sequence
                return Ok(st);
            }
            (Err(RefErr::Error(why)), Ok(_rows)) => {
                // openCypher requires a refusal
                if kf.delete_detaches && why.contains("cannot delete node with relationships") {
                    let mut n2 = model.clone();
                    let q2 = Quirks { delete_connected_detaches: true, ..Quirks::default() };
                    if eval::run(&mut n2, q, &q2, &none).is_ok() && n2.dump() == after {
                        st.known.push("KF-C04-1");
                        model = n2;
                        continue;
                    }
                }
                return Err(format!("step {step}: `{text}` must be refused ({why}) but the engine executed it"));
            }
            (Err(RefErr::Error(_)), Err(_)) => {
                st.required_refusals += 1;
                if after != before {
                    // a failing statement that changes the graph is C05's subject
                    st.stopped_on_c05 = true;
                    return Ok(st);
                }
            }
            (Ok(_), Err(e)) => {
                st.refused.push(e.chars().filter(|c| !c.is_ascii_digit()).take(50).collect());
                if after != before {
                    st.stopped_on_c05 = true;
                    return Ok(st);
                }
                // model stays as it was
            }
            (Ok(out), Ok(rows)) => {
                if out.result.nondeterministic || out.result.numeric_grouping_ambiguity {
                    return Ok(st);
                }
                let want = next.dump();
                let rows_ok = out.result.columns.is_empty() || compare(&rows, &out.result, &vec![ColMode::Exact; out.result.columns.len()]).is_ok();
                if (after != want || !rows_ok) && kf.merge_first_match_only && out.merge_multi_match {
                    // which of several matches the engine binds is not modelled: excluded and counted
                    st.known.push("excluded:KF-C04-2");
                    st.stopped_on_c05 = false;
                    return Ok(st);
                }
                if (after != want || !rows_ok) && kf.merge_ltr {
                    let mut n2 = model.clone();
                    let q2 = Quirks { merge_bound_rel_left_to_right: true, ..Quirks::default() };
                    if let Ok(o2) = eval::run(&mut n2, q, &q2, &none) {
                        if o2.merge_multi_match && kf.merge_first_match_only {
                            st.known.push("excluded:KF-C04-2");
                            return Ok(st);
                        }
                        let rows_ok2 = o2.result.columns.is_empty() || compare(&rows, &o2.result, &vec![ColMode::Exact; o2.result.columns.len()]).is_ok();
                        if n2.dump() == after && rows_ok2 {
                            st.known.push("KF-C04-3");
                            model = n2;
                            continue;
                        }
                    }
                }
                if after != want {
                    let a: std::collections::BTreeSet<&String> = after.0.iter().chain(after.1.iter()).collect();
                    let w: std::collections::BTreeSet<&String> = want.0.iter().chain(want.1.iter()).collect();
                    let mut d = String::new();
                    for l in a.difference(&w) {
                        d.push_str(&format!("  only in engine graph: {l}\n"));
                    }
                    for l in w.difference(&a) {
                        d.push_str(&format!("  only in openCypher graph: {l}\n"));
                    }
                    if d.is_empty() {
                        d = format!("  same lines, different multiplicities: engine {} nodes / {} rels, spec {} / {}\n", after.0.len(), after.1.len(), want.0.len(), want.1.len());
                    }
                    return Err(format!("step {step}: graph after `{text}` differs from the openCypher effect:\n{d}"));
                }
                if !out.result.columns.is_empty() {
                    let modes = vec![ColMode::Exact; out.result.columns.len()];
                    if let Err(d) = compare(&rows, &out.result, &modes) {
                        return Err(format!("step {step}: rows returned by `{text}` differ: {d}"));
                    }
                }
                if out.wrote && want != before {
                    st.changed += 1;
                }
                model = next;
            }
        }
    }
    Ok(st)
}

pub fn run(args: &Args) {
    let mut ev = Evidence::new(
        args,
        "exploration",
        "small generated graph x sequence of 1-5 write statements from 15 templates (CREATE node/path incl. comma-separated paths sharing a created variable, MATCH..CREATE, MERGE node/relationship with ON CREATE/ON MATCH, UNWIND-driven MERGE and CREATE, SET property/+=/=/label, REMOVE property/label, DELETE, DETACH DELETE, relationship writes, write after WITH); after every statement the uid-keyed typed dump of the store must equal a reference mutation model (openCypher write semantics on a plain graph, reads through the brute-force evaluator) and returned rows must match; a plain DELETE of a connected node must be refused. Non-trivial = a statement changed the model graph or was required to be refused; distinct = distinct (graph, statement texts).",
    );
    ev.assume("statements whose openCypher meaning is order-dependent or disputed are not generated (SET item reading what another item of the same clause wrote; using a variable after deleting it); a statement refused by the engine although openCypher defines it is counted as a refusal, and the sequence continues from the unchanged model");
    let kf = Known::load(args);
    if std::env::var("VERIF_BOOTSTRAP_KF").is_ok() {
        bootstrap_witnesses(args);
        return;
    }
    if let Some(p) = &args.replay {
        let case = Case::from_json(&load_replay(p));
        ev.case();
        ev.sample(case.to_json());
        ev.nontrivial(&"replay");
        ev.nontrivial(&case.to_json().to_string());
        match judge(&case, &Active::default()) {
            Ok(_) => println!("replay: property held"),
            Err(m) => {
                report_violation(&mut ev, &case.to_json(), &m);
            }
        }
        finish(&ev);
    }
    let mut active = Active::default();
    for id in ["KF-C04-1", "KF-C04-2", "KF-C04-3"] {
        if let Some(w) = witness_case(&kf, id) {
            let case = Case::from_json(&w);
            let fails = judge(&case, &Active::default()).is_err();
            if kf.witness_result(&mut ev, id, fails) {
                match id {
                    "KF-C04-1" => active.delete_detaches = true,
                    "KF-C04-2" => active.merge_first_match_only = true,
                    _ => active.merge_ltr = true,
                }
            }
        }
    }
    if std::env::var("VERIF_ASSUME_KF").is_ok() {
        active = Active { delete_detaches: true, merge_first_match_only: true, merge_ltr: true };
    }
    for (p, c) in corpus_cases("C04") {
        let case = Case::from_json(&c);
        ev.case();
        ev.class("regression_corpus");
        if let Err(m) = judge(&case, &active) {
            report_violation(&mut ev, &case.to_json(), &format!("{m} (corpus {})", p.display()));
            finish(&ev);
        }
    }
    let n = std::env::var("VERIF_CASES").ok().and_then(|s| s.parse().ok()).unwrap_or(args.tier.pick(120_000u32, 3_000_000u32));
    let survey = survey_limit();
    let evc = RefCell::new(&mut ev);
    let res = search(args.seed, n, &tape_strategy(260), |tape| {
        let case = build(tape);
        let mut e = evc.borrow_mut();
        e.case();
        match judge(&case, &active) {
            Ok(st) => {
                for (_, t) in &case.stmts {
                    e.class(&format!("stmt:{t}"));
                }
                for r in &st.refused {
                    e.refusal();
                    e.class(&format!("refused:{r}"));
                }
                for k in &st.known {
                    e.kf_hit(k);
                }
                if st.stopped_on_c05 {
                    e.class("stopped:failed_statement_changed_graph(C05)");
                }
                if st.required_refusals > 0 {
                    e.class("required_refusal_honoured");
                }
                if st.changed > 0 || st.required_refusals > 0 {
                    e.nontrivial(&case.to_json().to_string());
                    if e.want_sample() && e.evaluations % 997 == 1 {
                        e.sample(json!({"nodes": case.g.nodes.len(), "rels": case.g.rels.len(), "statements": case.stmts.iter().map(|(q, _)| render_query(q)).collect::<Vec<_>>()}));
                    }
                }
                Ok(())
            }
            Err(m) => {
                if survey > 0 {
                    SURVEY.with(|s| {
                        let mut s = s.borrow_mut();
                        let sig: String = m.chars().filter(|c| !c.is_ascii_digit()).take(60).collect();
                        if s.len() < survey && !s.iter().any(|x| x.starts_with(&sig)) {
                            let p = write_replay("survey", &case.to_json(), &m);
                            s.push(format!("{sig}\n{m}\n  saved: {}", p.display()));
                        }
                    });
                    return Ok(());
                }
                e.frozen = true;
                Err(m)
            }
        }
    });
    drop(evc);
    if survey > 0 {
        SURVEY.with(|s| {
            for (i, m) in s.borrow().iter().enumerate() {
                eprintln!("--- divergence {i}\n{m}");
            }
        });
    }
    if let Some((tape, msg)) = res {
        let case = build(&tape);
        // drop statements that are not needed for the failure
        let mut stmts = case.stmts.clone();
        let mut i = 0;
        while i < stmts.len() && stmts.len() > 1 {
            let mut cand = stmts.clone();
            cand.remove(i);
            if judge(&Case { g: case.g.clone(), stmts: cand.clone() }, &active).is_err() {
                stmts = cand;
            } else {
                i += 1;
            }
        }
        let min = Case { g: case.g.clone(), stmts };
        let msg = judge(&min, &active).err().unwrap_or(msg);
        report_violation(&mut ev, &min.to_json(), &msg);
    }
    finish(&ev);
}

/// developer tool (never run by a check): find minimal witnesses for the modelled deviations
pub fn bootstrap_witnesses(args: &Args) {
    let dir = std::path::Path::new(VERIF_ROOT).join("replays/known");
    let mut active = Active::default();
    for round in 0..6 {
        let act = active.clone();
        let res = search(args.seed + round, 40000, &tape_strategy(260), |tape| {
            let case = build(tape);
            match judge(&case, &act) {
                Ok(_) => Ok(()),
                Err(m) => Err(m),
            }
        });
        let (tape, msg) = match res {
            Some(x) => x,
            None => {
                eprintln!("round {round}: nothing left");
                break;
            }
        };
        let case = build(&tape);
        let mut stmts = case.stmts.clone();
        let mut i = 0;
        while i < stmts.len() && stmts.len() > 1 {
            let mut cand = stmts.clone();
            cand.remove(i);
            if judge(&Case { g: case.g.clone(), stmts: cand.clone() }, &act).is_err() {
                stmts = cand;
            } else {
                i += 1;
            }
        }
        let min = Case { g: case.g.clone(), stmts };
        let mut found = None;
        for (id, a) in [("KF-C04-1", Active { delete_detaches: true, ..Active::default() }), ("KF-C04-2", Active { merge_first_match_only: true, ..Active::default() }), ("KF-C04-3", Active { merge_ltr: true, ..Active::default() })] {
            let already = match id {
                "KF-C04-1" => active.delete_detaches,
                "KF-C04-2" => active.merge_first_match_only,
                _ => active.merge_ltr,
            };
            if !already && judge(&min, &a).is_ok() {
                found = Some(id);
                break;
            }
        }
        match found {
            Some(id) => {
                let body = json!({"property": "C04", "message": msg, "case": min.to_json()});
                std::fs::write(dir.join(format!("{id}.json")), serde_json::to_string_pretty(&body).unwrap()).unwrap();
                eprintln!("round {round}: {id} <- {:?}", min.stmts.iter().map(|(q, _)| render_query(q)).collect::<Vec<_>>());
                match id {
                    "KF-C04-1" => active.delete_detaches = true,
                    "KF-C04-2" => active.merge_first_match_only = true,
                    _ => active.merge_ltr = true,
                }
            }
            None => {
                eprintln!("round {round}: UNEXPLAINED {msg}");
                let p = write_replay("unexplained", &min.to_json(), &msg);
                eprintln!("  saved {}", p.display());
                break;
            }
        }
    }
}
