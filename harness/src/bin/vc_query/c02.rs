//! C02 — results do not depend on indexes, storage tier, planner mode, parallel-filter
//! threshold or process.
use crate::*;
use samyama::graph::{EdgeType, GraphStore, Label, PropertyMap};
use samyama::query::executor::planner::{PlannerConfig, QueryPlanner};
use serde::{Deserialize, Serialize};

#[derive(Clone, Copy, Debug, PartialEq, Eq, Serialize, Deserialize)]
pub enum IndexMode {
    None,
    Before,
    After,
}
#[derive(Clone, Copy, Debug, PartialEq, Eq, Serialize, Deserialize)]
pub enum CompactMode {
    Never,
    Mid,
    End,
    /// compacted mid-history and again right before the late delete/re-create section, so the
    /// store holds two frozen segments and later deletions hit relationships of the older one
    Multi,
}

#[derive(Clone, Copy, Debug, PartialEq, Eq, Serialize, Deserialize)]
pub struct Config {
    pub index: IndexMode,
    pub compact: CompactMode,
    pub native: bool,
    pub parallel_cost: u64,
}

impl Config {
    pub fn name(&self) -> String {
        format!("index={:?},compact={:?},planner={},parallel_cost={}", self.index, self.compact, if self.native { "native" } else { "legacy" }, self.parallel_cost)
    }
}

pub fn all_configs() -> Vec<Config> {
    let mut out = Vec::new();
    for index in [IndexMode::None, IndexMode::Before, IndexMode::After] {
        for compact in [CompactMode::Never, CompactMode::Mid, CompactMode::End, CompactMode::Multi] {
            for native in [false, true] {
                for parallel_cost in [0u64, 1_000_000_000] {
                    out.push(Config { index, compact, native, parallel_cost });
                }
            }
        }
    }
    out
}

/// history step
#[derive(Clone, Debug, Serialize, Deserialize)]
pub enum Op {
    /// create the i-th reference node; `wrong` = start with a decoy value of property p (fixed later)
    Node { i: usize, wrong: bool },
    /// create the j-th reference relationship
    Rel { j: usize },
    /// create and later delete a decoy node (id reuse) with the labels/properties of reference node `like`
    Ghost { like: usize },
    /// create a decoy relationship between two live reference nodes and delete it again
    GhostRel { src: usize, dst: usize },
    /// set the final value of p on node i (after a decoy)
    Fix { i: usize },
    /// late in the history: delete the j-th reference relationship and create it again
    Churn { j: usize },
}

#[derive(Clone, Debug, Serialize, Deserialize)]
pub struct Case {
    pub g: RGraph,
    pub ops: Vec<Op>,
    pub q: Query,
}

impl Case {
    pub fn to_json(&self) -> serde_json::Value {
        json!({"graph": self.g, "ops": self.ops, "query": self.q, "text": render_query(&self.q)})
    }
    pub fn from_json(v: &serde_json::Value) -> Case {
        Case { g: serde_json::from_value(v["graph"].clone()).expect("graph"), ops: serde_json::from_value(v["ops"].clone()).expect("ops"), q: serde_json::from_value(v["query"].clone()).expect("query") }
    }
}

pub fn build(tape: &[u16]) -> (Case, Vec<&'static str>) {
    let mut t = Tape::new(tape);
    let g = gen::gen_graph(&mut t);
    // history: nodes first (relationships need them), ghosts and decoys sprinkled in
    let mut ops = Vec::new();
    for i in 0..g.nodes.len() {
        if t.chance(1, 4) {
            ops.push(Op::Ghost { like: i });
        }
        let wrong = t.chance(1, 4);
        ops.push(Op::Node { i, wrong });
    }
    for j in 0..g.rels.len() {
        if t.chance(1, 4) {
            ops.push(Op::GhostRel { src: g.rels[j].src, dst: g.rels[j].dst });
        }
        ops.push(Op::Rel { j });
    }
    for j in 0..g.rels.len() {
        if t.chance(1, 3) {
            ops.push(Op::Churn { j });
        }
    }
    for i in 0..g.nodes.len() {
        ops.push(Op::Fix { i });
    }
    let mut qg = QGen::new(&mut t);
    let (q, _modes) = qg.read_query();
    let tags = qg.f.tags.clone();
    (Case { g, ops, q }, tags)
}

fn props_of(n: &RNode) -> PropertyMap {
    let mut pm = PropertyMap::new();
    for (k, v) in &n.props {
        pm.insert(k.clone(), v.to_pv());
    }
    pm
}

/// Build the store for a configuration from the same operation list (so ids coincide).
/// engine id -> index of the reference node / relationship it stands for in this configuration
/// (which id a re-created relationship receives may depend on the storage tier: a deletion in a
/// frozen segment does not free the id)
#[derive(Default)]
pub struct IdNames {
    pub nodes: BTreeMap<u64, usize>,
    pub rels: BTreeMap<u64, usize>,
}

pub fn build_config_store(case: &Case, cfg: &Config) -> Result<GraphStore, String> {
    build_config_store_named(case, cfg).map(|x| x.0)
}

pub fn build_config_store_named(case: &Case, cfg: &Config) -> Result<(GraphStore, IdNames), String> {
    let mut store = GraphStore::new();
    let index_all = |store: &mut GraphStore| {
        for l in gen::LABELS {
            for p in ["p", "q", "k", "s"] {
                store.property_index.create_index(Label::new(l), p.to_string());
            }
        }
    };
    // "Before": the index exists while data arrives; "After": declared through Cypher at the end
    if cfg.index == IndexMode::Before {
        index_all(&mut store);
    }
    let mut node_ids = vec![None; case.g.nodes.len()];
    let mut rel_ids = vec![None; case.g.rels.len()];
    // "mid" = halfway through the creation part, so relationships land on both sides of it
    let creation = case.ops.iter().position(|o| matches!(o, Op::Churn { .. } | Op::Fix { .. })).unwrap_or(case.ops.len());
    let mid = if cfg.compact == CompactMode::Multi { creation * 2 / 3 } else { case.ops.len() / 2 };
    let late = case.ops.iter().position(|o| matches!(o, Op::Churn { .. }));
    for (step, op) in case.ops.iter().enumerate() {
        if matches!(cfg.compact, CompactMode::Mid | CompactMode::Multi) && step == mid {
            store.compact_adjacency();
        }
        if cfg.compact == CompactMode::Multi && Some(step) == late && step != mid {
            store.compact_adjacency();
        }
        match op {
            Op::Node { i, wrong } => {
                let n = &case.g.nodes[*i];
                let mut pm = props_of(n);
                if *wrong {
                    pm.insert("p".into(), samyama::graph::PropertyValue::Integer(77));
                }
                let id = store.create_node_with_properties("default", n.labels.iter().map(|l| Label::new(l.clone())).collect(), pm);
                node_ids[*i] = Some(id);
            }
            Op::Rel { j } => {
                let r = &case.g.rels[*j];
                let (s, d) = (node_ids[r.src].ok_or("rel before node")?, node_ids[r.dst].ok_or("rel before node")?);
                let mut pm = PropertyMap::new();
                for (k, v) in &r.props {
                    pm.insert(k.clone(), v.to_pv());
                }
                rel_ids[*j] = Some(store.create_edge_with_properties(s, d, EdgeType::new(r.ty.clone()), pm).map_err(|e| e.to_string())?);
            }
            Op::Churn { j } => {
                let r = &case.g.rels[*j];
                let (s, d) = (node_ids[r.src].ok_or("rel before node")?, node_ids[r.dst].ok_or("rel before node")?);
                let old = rel_ids[*j].ok_or("churn before rel")?;
                store.delete_edge(old).map_err(|e| e.to_string())?;
                let mut pm = PropertyMap::new();
                for (k, v) in &r.props {
                    pm.insert(k.clone(), v.to_pv());
                }
                rel_ids[*j] = Some(store.create_edge_with_properties(s, d, EdgeType::new(r.ty.clone()), pm).map_err(|e| e.to_string())?);
            }
            Op::Ghost { like } => {
                let n = &case.g.nodes[*like];
                let id = store.create_node_with_properties("default", n.labels.iter().map(|l| Label::new(l.clone())).collect(), props_of(n));
                store.delete_node("default", id).map_err(|e| e.to_string())?;
            }
            Op::GhostRel { src, dst } => {
                if let (Some(s), Some(d)) = (node_ids[*src], node_ids[*dst]) {
                    let id = store.create_edge(s, d, EdgeType::new("R")).map_err(|e| e.to_string())?;
                    store.delete_edge(id).map_err(|e| e.to_string())?;
                }
            }
            Op::Fix { i } => {
                let n = &case.g.nodes[*i];
                let id = node_ids[*i].ok_or("fix before node")?;
                match n.props.get("p") {
                    Some(v) => store.set_node_property("default", id, "p", v.to_pv()).map_err(|e| e.to_string())?,
                    None => store.remove_node_property(id, "p"),
                }
            }
        }
    }
    if cfg.compact == CompactMode::End {
        store.compact_adjacency();
    }
    if cfg.index == IndexMode::After {
        let eng = samyama::query::QueryEngine::new();
        for l in gen::LABELS {
            for p in ["p", "q", "k", "s"] {
                eng.execute_mut(&format!("CREATE INDEX ON :{l}({p})"), &mut store, "default").map_err(|e| format!("create index: {e}"))?;
            }
        }
    }
    let mut names = IdNames::default();
    for (i, id) in node_ids.iter().enumerate() {
        if let Some(id) = id {
            names.nodes.insert(id.as_u64(), i);
        }
    }
    for (j, id) in rel_ids.iter().enumerate() {
        if let Some(id) = id {
            names.rels.insert(id.as_u64(), j);
        }
    }
    Ok((store, names))
}

#[derive(Clone, Debug, PartialEq)]
pub enum Res {
    Rows(Vec<String>),
    Refused,
    Panic(String),
}

fn canon_cell(v: &samyama::query::Value, nm: &IdNames) -> String {
    let nn = |id: u64| nm.nodes.get(&id).map(|i| format!("N{i}")).unwrap_or_else(|| format!("N?{id}"));
    let rn = |id: u64| nm.rels.get(&id).map(|j| format!("R{j}")).unwrap_or_else(|| format!("R?{id}"));
    use samyama::query::Value;
    match v {
        Value::Node(id, _) | Value::NodeRef(id) => nn(id.as_u64()),
        Value::Edge(id, _) => rn(id.as_u64()),
        Value::EdgeRef(id, ..) => rn(id.as_u64()),
        Value::Property(p) => {
            // lists (collect(), labels()) are compared as multisets here too
            fn unordered(v: &V) -> String {
                match v {
                    V::List(items) => {
                        let mut c: Vec<String> = items.iter().map(unordered).collect();
                        c.sort();
                        format!("[{}]", c.join(","))
                    }
                    other => other.canon(),
                }
            }
            unordered(&V::from_pv(p))
        }
        Value::Path { nodes, edges } => format!("P{:?}/{:?}", nodes.iter().map(|n| nn(n.as_u64())).collect::<Vec<_>>(), edges.iter().map(|e| rn(e.as_u64())).collect::<Vec<_>>()),
        Value::List(items) => {
            // element order of collect()/labels() is unspecified: compare as a multiset
            let mut c: Vec<String> = items.iter().map(|x| canon_cell(x, nm)).collect();
            c.sort();
            format!("[{}]", c.join(","))
        }
        Value::Map(m) => format!("{{{}}}", m.iter().map(|(k, x)| format!("{k}:{}", canon_cell(x, nm))).collect::<Vec<_>>().join(",")),
        Value::Null => "null".into(),
    }
}

pub fn run_config(case: &Case, cfg: &Config, text: &str, windowed: bool) -> Res {
    let intermediate = has_intermediate_window(&case.q);
    let (store, names) = match build_config_store_named(case, cfg) {
        Ok(s) => s,
        Err(e) => return Res::Panic(format!("building the store failed: {e}")),
    };
    std::env::set_var("SAMYAMA_FILTER_PARALLEL_COST", cfg.parallel_cost.to_string());
    let r = catch(|| -> Result<Vec<String>, String> {
        let q = parse_query(text).map_err(|e| e.to_string())?;
        let ex = if cfg.native { QueryExecutor::with_planner(&store, QueryPlanner::with_config(PlannerConfig { graph_native: true, max_candidate_plans: 64 })) } else { QueryExecutor::new(&store) };
        let b = ex.execute(&q).map_err(|e| e.to_string())?;
        let mut rows: Vec<String> = b.records.iter().map(|r| b.columns.iter().map(|c| r.get(c).map(|v| canon_cell(v, &names)).unwrap_or_else(|| "missing".into())).collect::<Vec<_>>().join(" | ")).collect();
        if windowed {
            // which rows a window keeps is not determined: compare the size only — and not even
            // that when the window sits in a WITH, because later clauses expand whichever rows
            // it kept (`… WITH a LIMIT 2 MATCH (a)-->(d) …`)
            if intermediate {
                return Ok(vec!["<rows not determined: SKIP/LIMIT inside a WITH>".to_string()]);
            }
            return Ok(vec![format!("<{} rows>", rows.len())]);
        }
        rows.sort();
        Ok(rows)
    });
    match r {
        Ok(Ok(rows)) => Res::Rows(rows),
        Ok(Err(_)) => Res::Refused,
        Err(p) => Res::Panic(p),
    }
}

/// SKIP/LIMIT inside a WITH (anything but the final RETURN of a part)
pub fn has_intermediate_window(q: &Query) -> bool {
    q.parts.iter().flatten().any(|c| matches!(c, Clause::With { proj, .. } if proj.skip.is_some() || proj.limit.is_some()))
}

fn windowed(q: &Query) -> bool {
    q.parts.iter().flatten().any(|c| match c {
        Clause::With { proj, .. } | Clause::Return { proj } => proj.skip.is_some() || proj.limit.is_some(),
        _ => false,
    })
}

pub struct Outcome {
    pub results: Vec<(Config, Res)>,
}

impl Outcome {
    /// axes on which results differ when all other axes are held equal
    pub fn axes(&self) -> Vec<&'static str> {
        let mut out = Vec::new();
        let differs = |f: &dyn Fn(&Config) -> Config| -> bool {
            // group by the config with the axis neutralised
            let mut groups: BTreeMap<String, Vec<&Res>> = BTreeMap::new();
            for (c, r) in &self.results {
                groups.entry(f(c).name()).or_default().push(r);
            }
            groups.values().any(|v| v.iter().any(|r| *r != v[0]))
        };
        if differs(&|c| Config { index: IndexMode::None, ..*c }) {
            out.push("index");
        }
        if differs(&|c| Config { compact: CompactMode::Never, ..*c }) {
            out.push("storage_tier");
        }
        if differs(&|c| Config { native: false, ..*c }) {
            out.push("planner");
        }
        if differs(&|c| Config { parallel_cost: 0, ..*c }) {
            out.push("parallel_threshold");
        }
        out
    }
}

pub enum Verdict {
    Same { nontrivial: bool, refused: bool },
    Known(&'static str),
    Violation(String),
}

#[derive(Default, Clone)]
pub struct Active {
    pub native_planner: bool,
    pub varlen_order: bool,
}

pub fn evaluate(case: &Case, configs: &[Config]) -> Outcome {
    let text = render_query(&case.q);
    let w = windowed(&case.q);
    Outcome { results: configs.iter().map(|c| (*c, run_config(case, c, &text, w))).collect() }
}

pub fn judge(case: &Case, configs: &[Config], kf: &Active) -> Verdict {
    let text = render_query(&case.q);
    let out = evaluate(case, configs);
    if let Some((c, Res::Panic(p))) = out.results.iter().find(|(_, r)| matches!(r, Res::Panic(_))) {
        return Verdict::Violation(format!("`{text}` panicked under {}: {p}", c.name()));
    }
    let first = &out.results[0].1;
    if out.results.iter().all(|(_, r)| r == first) {
        let nontrivial = matches!(first, Res::Rows(r) if !r.is_empty() && r[0] != "<0 rows>" && !r[0].starts_with("<rows not determined"));
        return Verdict::Same { nontrivial, refused: matches!(first, Res::Refused) };
    }
    let axes = out.axes();
    // known finding: the opt-in graph-native planner — all legacy configurations agree
    let legacy: Vec<&(Config, Res)> = out.results.iter().filter(|(c, _)| !c.native).collect();
    let legacy_agree = legacy.iter().all(|(_, r)| *r == legacy[0].1);
    if kf.native_planner && legacy_agree {
        return Verdict::Known("KF-C02-1");
    }
    // known finding: a variable-length hop inside a longer pattern is answered by a
    // breadth-first walk whose result depends on expansion (hash) order
    if kf.varlen_order && c01::query_varlen_inside_longer_pattern(&case.q) {
        return Verdict::Known("KF-C02-2");
    }
    // show one representative per distinct result
    let mut seen: Vec<(&Res, Vec<String>)> = Vec::new();
    for (c, r) in &out.results {
        match seen.iter_mut().find(|(x, _)| *x == r) {
            Some((_, names)) => names.push(c.name()),
            None => seen.push((r, vec![c.name()])),
        }
    }
    let mut d = String::new();
    for (r, names) in &seen {
        let shown = match r {
            Res::Rows(rows) => format!("{} rows {:?}", rows.len(), rows.iter().take(6).collect::<Vec<_>>()),
            Res::Refused => "refused".to_string(),
            Res::Panic(p) => format!("panic {p}"),
        };
        d.push_str(&format!("  {} configuration(s), e.g. [{}]: {}\n", names.len(), names[0], shown));
    }
    // attribution: which side matches the specification?
    let spec = ref_read(&case.g, &case.q, &Quirks::default()).ok().map(|s| s.rows.len());
    Verdict::Violation(format!("`{text}` answers differently across configurations (axes that matter: {axes:?}; openCypher row count: {spec:?}):\n{d}"))
}

pub fn run(args: &Args) {
    let mut ev = Evidence::new(
        args,
        "exploration",
        "graph history (reference graph built with decoy nodes/relationships created and deleted for id reuse, decoy property values fixed later) x read query from the C01 grammar, executed under the cross product {no index, index on every (label, property) declared before the data, declared after} x {never compacted, compact_adjacency mid-history, at the end, twice (two frozen segments) before a late section that deletes and re-creates reference relationships} x {legacy, graph-native planner} x {SAMYAMA_FILTER_PARALLEL_COST 0, 1e9}; twin stores are built from the same operation list and returned nodes/relationships are compared by the reference entity they stand for; every configuration must give the same normalised bag (or all refuse). Non-trivial = the common answer is non-empty; distinct = distinct (history, query).",
    );
    ev.assume("queries with SKIP/LIMIT in the final RETURN are compared by row count only (which rows a window keeps is not determined without a total order); with SKIP/LIMIT inside a WITH not even the count is determined (later clauses expand whichever rows were kept), so only agreement on refusal is compared (class undetermined_intermediate_window)");
    ev.assume("separate-process runs are covered by the fixed-seed determinism of the in-process runs plus the cross-process replay in the thorough tier; hash seeds differ between the twin stores of one run already (RandomState per map)");
    let kf = Known::load(args);
    let configs = all_configs();
    // compact_adjacency() reports every compaction on stderr (tens of thousands of lines per
    // run): silence fd 2 while cases run, restore it for our own messages
    let saved_err = unsafe { libc::dup(2) };
    unsafe {
        let devnull = libc::open(b"/dev/null\0".as_ptr() as *const libc::c_char, libc::O_WRONLY);
        if devnull >= 0 && saved_err >= 0 {
            libc::dup2(devnull, 2);
            libc::close(devnull);
        }
    }
    let restore_err = move || unsafe {
        if saved_err >= 0 {
            libc::dup2(saved_err, 2);
        }
    };
    if let Some(p) = &args.replay {
        let case = Case::from_json(&load_replay(p));
        ev.case();
        ev.sample(case.to_json());
        ev.nontrivial(&"replay");
        ev.nontrivial(&render_query(&case.q));
        let verdict = judge(&case, &configs, &Active::default());
        restore_err();
        match verdict {
            Verdict::Violation(m) => {
                report_violation(&mut ev, &case.to_json(), &m);
            }
            Verdict::Same { .. } => println!("replay: all configurations agree"),
            Verdict::Known(k) => println!("replay: known {k}"),
        }
        finish(&ev);
    }
    let mut active = Active::default();
    if let Some(w) = witness_case(&kf, "KF-C02-1") {
        let case = Case::from_json(&w);
        let fails = matches!(judge(&case, &configs, &Active::default()), Verdict::Violation(_));
        if kf.witness_result(&mut ev, "KF-C02-1", fails) {
            active.native_planner = true;
        }
    }
    if let Some(w) = witness_case(&kf, "KF-C02-2") {
        // the witness is order dependent by nature: it counts as "still failing" when the
        // configurations disagree in this run; an agreeing run leaves the matcher off
        let case = Case::from_json(&w);
        let fails = matches!(judge(&case, &configs, &Active { native_planner: true, varlen_order: false }), Verdict::Violation(_));
        if kf.witness_result(&mut ev, "KF-C02-2", fails) {
            active.varlen_order = true;
        }
    }
    if std::env::var("VERIF_ASSUME_KF").is_ok() {
        active.native_planner = true;
        active.varlen_order = true;
    }
    for (p, c) in corpus_cases("C02") {
        let case = Case::from_json(&c);
        ev.case();
        ev.class("regression_corpus");
        if let Verdict::Violation(m) = judge(&case, &configs, &active) {
            restore_err();
            report_violation(&mut ev, &case.to_json(), &format!("{m} (corpus {})", p.display()));
            finish(&ev);
        }
    }
    let n = std::env::var("VERIF_CASES").ok().and_then(|s| s.parse().ok()).unwrap_or(args.tier.pick(6_000u32, 200_000u32));
    let survey = survey_limit();
    let evc = RefCell::new(&mut ev);
    let res = search(args.seed, n, &tape_strategy(240), |tape| {
        let (case, tags) = build(tape);
        let mut e = evc.borrow_mut();
        e.case();
        match judge(&case, &configs, &active) {
            Verdict::Same { nontrivial, refused } => {
                if refused {
                    e.refusal();
                    e.class("all_refuse");
                } else {
                    e.class("all_agree");
                    if has_intermediate_window(&case.q) {
                        e.class("undetermined_intermediate_window");
                    }
                    if case.ops.iter().any(|o| matches!(o, Op::Churn { .. })) {
                        e.class("history_with_late_delete_recreate");
                    }
                    for t in &tags {
                        e.class(&format!("tag:{t}"));
                    }
                }
                if nontrivial {
                    e.nontrivial(&format!("{}#{}", serde_json::to_string(&case.ops).unwrap(), render_query(&case.q)));
                    if case.ops.iter().any(|o| matches!(o, Op::Ghost { .. } | Op::GhostRel { .. })) {
                        e.class("history_with_id_reuse");
                    }
                    if e.want_sample() && e.evaluations % 397 == 1 {
                        e.sample(json!({"query": render_query(&case.q), "ops": case.ops.len(), "configurations": configs.len()}));
                    }
                }
                Ok(())
            }
            Verdict::Known(k) => {
                e.kf_hit(k);
                Ok(())
            }
            Verdict::Violation(m) => {
                if survey > 0 {
                    SURVEY.with(|s| {
                        let mut s = s.borrow_mut();
                        let sig = format!("{tags:?}");
                        if s.len() < survey && !s.iter().any(|x| x.ends_with(&sig)) {
                            let p = write_replay("survey", &case.to_json(), &m);
                            s.push(format!("{m}  saved: {}\n  tags: {sig}", p.display()));
                        }
                    });
                    return Ok(());
                }
                e.frozen = true;
                Err(m)
            }
        }
    });
    drop(evc);
    restore_err();
    if survey > 0 {
        SURVEY.with(|s| {
            for (i, m) in s.borrow().iter().enumerate() {
                eprintln!("--- divergence {i}\n{m}");
            }
        });
    }
    ev.set("configurations_per_case", json!(configs.len()));
    if let Some((tape, msg)) = res {
        let (case, _) = build(&tape);
        let msg = match judge(&case, &configs, &active) {
            Verdict::Violation(m) => m,
            _ => msg,
        };
        report_violation(&mut ev, &case.to_json(), &msg);
    }
    finish(&ev);
}
