//! Normalising engine results into reference values, and the result comparator.

use crate::eval::{order_cmp, RefResult};
use crate::model::*;
use samyama::graph::{EdgeId, GraphStore, NodeId};
use samyama::query::{RecordBatch, Value};
use std::cmp::Ordering;
use std::collections::BTreeMap;

/// Maps engine ids to reference indices. For graphs that the statement itself extends
/// (C04), unknown ids are resolved through the `uid` property.
pub struct IdMap<'a> {
    pub nodes: &'a [NodeId],
    pub edges: &'a [EdgeId],
}

impl<'a> IdMap<'a> {
    fn node(&self, id: NodeId) -> V {
        match self.nodes.iter().position(|x| *x == id) {
            Some(i) => V::Node(i),
            None => V::Str(format!("<unknown node {}>", id.as_u64())),
        }
    }
    fn edge(&self, id: EdgeId) -> V {
        match self.edges.iter().position(|x| *x == id) {
            Some(i) => V::Rel(i),
            None => V::Str(format!("<unknown rel {}>", id.as_u64())),
        }
    }
}

pub fn norm_value(v: &Value, ids: &IdMap) -> V {
    match v {
        Value::Node(id, _) | Value::NodeRef(id) => ids.node(*id),
        Value::Edge(id, _) => ids.edge(*id),
        Value::EdgeRef(id, ..) => ids.edge(*id),
        Value::Property(p) => V::from_pv(p),
        Value::Path { nodes, edges } => {
            let ns: Vec<usize> = nodes.iter().map(|n| ids.nodes.iter().position(|x| x == n).unwrap_or(usize::MAX)).collect();
            let es: Vec<usize> = edges.iter().map(|e| ids.edges.iter().position(|x| x == e).unwrap_or(usize::MAX)).collect();
            V::Path(ns, es)
        }
        Value::List(items) => V::List(items.iter().map(|x| norm_value(x, ids)).collect()),
        Value::Map(m) => V::Map(m.iter().map(|(k, x)| (k.clone(), norm_value(x, ids))).collect()),
        Value::Null => V::Null,
    }
}

pub struct EngineRows {
    pub columns: Vec<String>,
    pub rows: Vec<Vec<V>>,
}

pub fn norm_batch(b: &RecordBatch, ids: &IdMap) -> EngineRows {
    let columns = b.columns.clone();
    let mut rows = Vec::new();
    for r in &b.records {
        let mut row = Vec::new();
        for c in &columns {
            row.push(match r.get(c) {
                Some(v) => norm_value(v, ids),
                None => V::Null,
            });
        }
        rows.push(row);
    }
    EngineRows { columns, rows }
}

thread_local! {
    /// KF-C01-12 matcher: judge ORDER BY with Integer before a numerically equal Float
    pub static INT_FIRST_ON_NUMERIC_TIE: std::cell::Cell<bool> = std::cell::Cell::new(false);
}

/// per-column comparison mode
#[derive(Clone, Copy, PartialEq)]
pub enum ColMode {
    Exact,
    /// list compared as a multiset (collect(), labels())
    BagList,
}

pub fn canon_cell(v: &V, mode: ColMode) -> String {
    match (mode, v) {
        (ColMode::BagList, V::List(items)) => {
            let mut c: Vec<String> = items.iter().map(|x| x.canon()).collect();
            c.sort();
            format!("bag[{}]", c.join(","))
        }
        _ => v.canon(),
    }
}

pub fn canon_row(r: &[V], modes: &[ColMode]) -> String {
    r.iter().enumerate().map(|(i, v)| canon_cell(v, modes.get(i).copied().unwrap_or(ColMode::Exact))).collect::<Vec<_>>().join(" | ")
}

fn bag(rows: &[Vec<V>], modes: &[ColMode]) -> BTreeMap<String, usize> {
    let mut m = BTreeMap::new();
    for r in rows {
        *m.entry(canon_row(r, modes)).or_insert(0) += 1;
    }
    m
}

pub fn bag_diff(engine: &[Vec<V>], reference: &[Vec<V>], modes: &[ColMode]) -> Option<String> {
    let (a, b) = (bag(engine, modes), bag(reference, modes));
    if a == b {
        return None;
    }
    let mut s = String::new();
    for (k, n) in &a {
        let m = b.get(k).copied().unwrap_or(0);
        if *n != m {
            s.push_str(&format!("  engine x{n} / spec x{m}: {k}\n"));
        }
    }
    for (k, m) in &b {
        if !a.contains_key(k) {
            s.push_str(&format!("  engine x0 / spec x{m}: {k}\n"));
        }
    }
    Some(s)
}

/// every distinct engine row is a row of the reference answer
pub fn subset(engine: &[Vec<V>], reference: &[Vec<V>], modes: &[ColMode]) -> bool {
    let b = bag(reference, modes);
    bag(engine, modes).keys().all(|k| b.contains_key(k))
}

/// set-level difference only (multiplicities ignored)
pub fn set_equal(engine: &[Vec<V>], reference: &[Vec<V>], modes: &[ColMode]) -> bool {
    let a: Vec<String> = bag(engine, modes).into_keys().collect();
    let b: Vec<String> = bag(reference, modes).into_keys().collect();
    a == b
}

/// Compare an engine result with the reference result. Ok(()) or a description.
pub fn compare(engine: &EngineRows, reference: &RefResult, modes: &[ColMode]) -> Result<(), String> {
    if engine.columns.len() != reference.columns.len() {
        return Err(format!("column count: engine {:?} vs spec {:?}", engine.columns, reference.columns));
    }
    let windowed = reference.skip.is_some() || reference.limit.is_some();
    if !windowed {
        if let Some(d) = bag_diff(&engine.rows, &reference.rows, modes) {
            return Err(format!("row bags differ:\n{d}"));
        }
    } else {
        // a valid window: right size, rows drawn from the pre-window bag
        if engine.rows.len() != reference.rows.len() {
            return Err(format!("window size: engine {} rows, spec {} rows", engine.rows.len(), reference.rows.len()));
        }
        let mut avail = bag(&reference.pre_window, modes);
        for r in &engine.rows {
            let k = canon_row(r, modes);
            match avail.get_mut(&k) {
                Some(n) if *n > 0 => *n -= 1,
                _ => return Err(format!("row not in (or more often than in) the pre-window result: {k}")),
            }
        }
        if !reference.order_cols.is_empty() {
            // multiset of sort keys must equal the reference window's
            let keyf = |r: &Vec<V>| reference.order_cols.iter().map(|(i, _)| r[*i].canon_numeric()).collect::<Vec<_>>().join("|");
            let mut a: Vec<String> = engine.rows.iter().map(keyf).collect();
            // under the Integer-before-equal-Float deviation the window is cut from a
            // differently ordered sequence: recompute the reference window with that order
            let ref_window: Vec<Vec<V>> = if INT_FIRST_ON_NUMERIC_TIE.with(|c| c.get()) {
                let mut all = reference.pre_window.clone();
                all.sort_by(|x, y| {
                    for (i, desc) in &reference.order_cols {
                        let mut c = order_cmp(&x[*i], &y[*i]);
                        if c == Ordering::Equal {
                            c = match (&x[*i], &y[*i]) {
                                (V::Int(_), V::Float(_)) => Ordering::Less,
                                (V::Float(_), V::Int(_)) => Ordering::Greater,
                                _ => c,
                            };
                        }
                        let c = if *desc { c.reverse() } else { c };
                        if c != Ordering::Equal {
                            return c;
                        }
                    }
                    Ordering::Equal
                });
                let n = all.len();
                let lo = (reference.skip.unwrap_or(0) as usize).min(n);
                let hi = lo.saturating_add(reference.limit.map(|l| l as usize).unwrap_or(usize::MAX)).min(n);
                all[lo..hi].to_vec()
            } else {
                reference.rows.clone()
            };
            let mut b: Vec<String> = ref_window.iter().map(keyf).collect();
            a.sort();
            b.sort();
            if a != b {
                return Err(format!("window sort keys differ: engine {a:?} vs spec {b:?}"));
            }
        }
    }
    if !reference.order_cols.is_empty() {
        for w in engine.rows.windows(2) {
            let mut c = Ordering::Equal;
            for (i, desc) in &reference.order_cols {
                let mut x = order_cmp(&w[0][*i], &w[1][*i]);
                if x == Ordering::Equal && INT_FIRST_ON_NUMERIC_TIE.with(|c| c.get()) {
                    // quirk: Integer sorts before a numerically equal Float (never a tie)
                    x = match (&w[0][*i], &w[1][*i]) {
                        (V::Int(_), V::Float(_)) => Ordering::Less,
                        (V::Float(_), V::Int(_)) => Ordering::Greater,
                        _ => x,
                    };
                }
                let x = if *desc { x.reverse() } else { x };
                if x != Ordering::Equal {
                    c = x;
                    break;
                }
            }
            if c == Ordering::Greater {
                return Err(format!("ORDER BY violated between rows {} and {}", canon_row(&w[0], modes), canon_row(&w[1], modes)));
            }
        }
    }
    Ok(())
}

#[allow(dead_code)]
pub fn store_ids(store: &GraphStore) -> Vec<NodeId> {
    vcheck::dump::live_node_ids(store)
}
