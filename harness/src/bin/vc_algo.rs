//! C26 (graph algorithms match their definitions) and C27 (PageRank / CDLP follow their
//! specified iteration) — DESIGN §4.
//!
//! Both checks generate graphs (bounded-exhaustive enumeration of small digraphs plus
//! proptest-driven random graphs), run the crate functions of `samyama-graph-algorithms`
//! (and, for C26, the `CALL algo.*` procedures over a `GraphStore` loaded with the same
//! graph) and judge the answers against brute-force reference implementations written for
//! clarity in this file.
use proptest::prelude::*;
use samyama::graph::{GraphStore, Label, PropertyValue};
use samyama::query::QueryEngine;
use samyama_graph_algorithms as alg;
use samyama_graph_algorithms::GraphView;
use serde::{Deserialize, Serialize};
use serde_json::json;
use std::cell::RefCell;
use std::collections::{BTreeMap, BTreeSet, HashMap};
use vcheck::*;

fn main() {
    let args = parse_args();
    quiet_panics();
    start_watchdog(args.tier.pick(900, 3600));
    match args.prop.as_str() {
        "C26" => c26(&args),
        "C27" => c27(&args),
        p => {
            eprintln!("vc_algo does not serve {p}");
            std::process::exit(2)
        }
    }
}

/// Build a `GraphView` the way the crate's own tests do (adjacency lists in edge order).
fn make_view(n: usize, ids: &[u64], edges: &[(usize, usize, f64)], weighted: bool) -> GraphView {
    let mut out = vec![Vec::new(); n];
    let mut inc = vec![Vec::new(); n];
    let mut w = vec![Vec::new(); n];
    for &(u, v, wt) in edges {
        out[u].push(v);
        inc[v].push(u);
        w[u].push(wt);
    }
    let node_to_index: HashMap<u64, usize> = ids.iter().enumerate().map(|(i, &id)| (id, i)).collect();
    GraphView::from_adjacency_list(n, ids.to_vec(), node_to_index, out, inc, if weighted { Some(w) } else { None })
}

/// Run `f` with fd 2 pointed at /dev/null (`compact_adjacency` prints a line per call).
fn quiet_stderr<T>(f: impl FnOnce() -> T) -> Result<T, String> {
    unsafe {
        let saved = libc::dup(2);
        let dn = libc::open(b"/dev/null\0".as_ptr() as *const libc::c_char, libc::O_WRONLY);
        libc::dup2(dn, 2);
        libc::close(dn);
        let r = catch(f);
        libc::dup2(saved, 2);
        libc::close(saved);
        r
    }
}

// =======================================================================================
// Reference implementations (C26). Plain graphs: nodes 0..n, edges (u, v, weight) with
// small non-negative integer weights, parallel edges and self-loops allowed.

mod refm {
    use std::collections::{BTreeSet, BinaryHeap};

    pub type E = (usize, usize, u64);

    /// reflexive-transitive closure of a boolean adjacency matrix (Warshall)
    pub fn closure(n: usize, adj: &[Vec<bool>]) -> Vec<Vec<bool>> {
        let mut r: Vec<Vec<bool>> = adj.to_vec();
        for i in 0..n {
            r[i][i] = true;
        }
        for k in 0..n {
            let rk = r[k].clone();
            for i in 0..n {
                if r[i][k] {
                    for j in 0..n {
                        if rk[j] {
                            r[i][j] = true;
                        }
                    }
                }
            }
        }
        r
    }

    pub fn directed_adj(n: usize, edges: &[E]) -> Vec<Vec<bool>> {
        let mut a = vec![vec![false; n]; n];
        for &(u, v, _) in edges {
            a[u][v] = true;
        }
        a
    }

    pub fn symmetric_adj(n: usize, edges: &[E]) -> Vec<Vec<bool>> {
        let mut a = vec![vec![false; n]; n];
        for &(u, v, _) in edges {
            a[u][v] = true;
            a[v][u] = true;
        }
        a
    }

    /// classes of an equivalence relation given as a matrix
    pub fn classes(n: usize, eq: &dyn Fn(usize, usize) -> bool) -> BTreeSet<BTreeSet<usize>> {
        let mut out = BTreeSet::new();
        for i in 0..n {
            let c: BTreeSet<usize> = (0..n).filter(|&j| eq(i, j)).collect();
            out.insert(c);
        }
        out
    }

    pub fn wcc(n: usize, edges: &[E]) -> BTreeSet<BTreeSet<usize>> {
        let r = closure(n, &symmetric_adj(n, edges));
        classes(n, &|i, j| r[i][j])
    }

    pub fn scc(n: usize, edges: &[E]) -> BTreeSet<BTreeSet<usize>> {
        let r = closure(n, &directed_adj(n, edges));
        classes(n, &|i, j| r[i][j] && r[j][i])
    }

    /// cheapest direct edge u→v (None: no edge)
    pub fn direct_min(n: usize, edges: &[E]) -> Vec<Vec<Option<u64>>> {
        let mut d = vec![vec![None; n]; n];
        for &(u, v, w) in edges {
            d[u][v] = Some(match d[u][v] {
                Some(x) if x <= w => x,
                _ => w,
            });
        }
        d
    }

    /// Floyd–Warshall all-pairs optimum (None = unreachable; dist(i,i) = 0)
    pub fn floyd(n: usize, edges: &[E]) -> Vec<Vec<Option<u64>>> {
        let mut d = direct_min(n, edges);
        for i in 0..n {
            d[i][i] = Some(0);
        }
        for k in 0..n {
            let dk = d[k].clone();
            for i in 0..n {
                if let Some(ik) = d[i][k] {
                    for j in 0..n {
                        if let Some(kj) = dk[j] {
                            let c = ik + kj;
                            if d[i][j].map(|x| c < x).unwrap_or(true) {
                                d[i][j] = Some(c);
                            }
                        }
                    }
                }
            }
        }
        d
    }

    /// minimum over all s–t cuts (n ≤ 16; used for n ≤ 10)
    pub fn min_cut(n: usize, edges: &[E], s: usize, t: usize) -> u64 {
        assert!(s != t && n <= 16);
        let mut best = u64::MAX;
        for mask in 0u32..(1u32 << n) {
            if mask & (1 << s) == 0 || mask & (1 << t) != 0 {
                continue;
            }
            let mut c = 0u64;
            for &(u, v, w) in edges {
                if mask & (1 << u) != 0 && mask & (1 << v) == 0 {
                    c += w;
                }
            }
            best = best.min(c);
        }
        best
    }

    /// plain Ford–Fulkerson on a capacity matrix (integer capacities), for n > 10
    pub fn ford_fulkerson(n: usize, edges: &[E], s: usize, t: usize) -> u64 {
        assert!(s != t);
        let mut cap = vec![vec![0u64; n]; n];
        for &(u, v, w) in edges {
            if u != v {
                cap[u][v] += w;
            }
        }
        let mut flow = 0u64;
        loop {
            // depth-first search for an augmenting path
            let mut parent = vec![usize::MAX; n];
            let mut seen = vec![false; n];
            let mut stack = vec![s];
            seen[s] = true;
            while let Some(u) = stack.pop() {
                if u == t {
                    break;
                }
                for v in 0..n {
                    if !seen[v] && cap[u][v] > 0 {
                        seen[v] = true;
                        parent[v] = u;
                        stack.push(v);
                    }
                }
            }
            if !seen[t] {
                return flow;
            }
            let mut b = u64::MAX;
            let mut v = t;
            while v != s {
                b = b.min(cap[parent[v]][v]);
                v = parent[v];
            }
            let mut v = t;
            while v != s {
                cap[parent[v]][v] -= b;
                cap[v][parent[v]] += b;
                v = parent[v];
            }
            flow += b;
        }
    }

    fn find(p: &mut Vec<usize>, x: usize) -> usize {
        let mut r = x;
        while p[r] != r {
            r = p[r];
        }
        p[x] = r;
        r
    }

    /// Kruskal on the undirected multigraph; returns (weight of the minimum spanning tree of
    /// `start`'s component, the component)
    pub fn kruskal(n: usize, edges: &[E], start: usize) -> (u64, BTreeSet<usize>) {
        let mut sorted: Vec<E> = edges.iter().cloned().filter(|e| e.0 != e.1).collect();
        sorted.sort_by_key(|e| e.2);
        let mut p: Vec<usize> = (0..n).collect();
        let mut taken = Vec::new();
        for &(u, v, w) in &sorted {
            let (a, b) = (find(&mut p, u), find(&mut p, v));
            if a != b {
                p[a] = b;
                taken.push((u, v, w));
            }
        }
        let root = find(&mut p, start);
        let comp: BTreeSet<usize> = (0..n).filter(|&i| find(&mut p, i) == root).collect();
        let total = taken.iter().filter(|e| comp.contains(&e.0)).map(|e| e.2).sum();
        (total, comp)
    }

    /// minimum over all spanning trees of `comp` (edge subsets of size |comp|-1 that are
    /// acyclic and connect it); None when there are too many edges to enumerate
    pub fn brute_mst(n: usize, edges: &[E], comp: &BTreeSet<usize>) -> Option<u64> {
        let es: Vec<E> = edges.iter().cloned().filter(|e| e.0 != e.1 && comp.contains(&e.0)).collect();
        let k = comp.len();
        if es.len() > 16 {
            return None;
        }
        if k <= 1 {
            return Some(0);
        }
        let mut best: Option<u64> = None;
        for mask in 0u32..(1u32 << es.len()) {
            if mask.count_ones() as usize != k - 1 {
                continue;
            }
            let mut p: Vec<usize> = (0..n).collect();
            let mut ok = true;
            let mut total = 0;
            for (i, &(u, v, w)) in es.iter().enumerate() {
                if mask & (1 << i) != 0 {
                    let (a, b) = (find(&mut p, u), find(&mut p, v));
                    if a == b {
                        ok = false;
                        break;
                    }
                    p[a] = b;
                    total += w;
                }
            }
            if ok && best.map(|b| total < b).unwrap_or(true) {
                best = Some(total);
            }
        }
        best
    }

    /// The shape of Prim's algorithm in mst.rs, with one switch: when a node is reached
    /// through an *incoming* edge, `first_parallel_only` takes the weight of the first
    /// parallel edge v→u in v's adjacency order (the defect of KF-C26-1) instead of looking at
    /// every parallel edge. `out[u]` = (target, weight) in adjacency order, `inc[u]` = sources in
    /// order. Heap order is by weight only, exactly one comparison key, like the code.
    pub fn prim_model(n: usize, out: &[Vec<(usize, u64)>], inc: &[Vec<usize>], first_parallel_only: bool) -> u64 {
        #[derive(PartialEq, Eq)]
        struct S(u64, usize, usize);
        impl Ord for S {
            fn cmp(&self, o: &Self) -> std::cmp::Ordering {
                o.0.cmp(&self.0)
            }
        }
        impl PartialOrd for S {
            fn partial_cmp(&self, o: &Self) -> Option<std::cmp::Ordering> {
                Some(self.cmp(o))
            }
        }
        if n == 0 {
            return 0;
        }
        let mut visited = vec![false; n];
        let mut heap = BinaryHeap::new();
        let mut total = 0;
        let add = |u: usize, heap: &mut BinaryHeap<S>, visited: &Vec<bool>| {
            for &(v, w) in &out[u] {
                if !visited[v] {
                    heap.push(S(w, u, v));
                }
            }
            for &v in &inc[u] {
                if !visited[v] {
                    let mut ws = out[v].iter().filter(|x| x.0 == u).map(|x| x.1);
                    if first_parallel_only {
                        if let Some(w) = ws.next() {
                            heap.push(S(w, u, v));
                        }
                    } else if let Some(w) = ws.min() {
                        heap.push(S(w, u, v));
                    }
                }
            }
        };
        visited[0] = true;
        add(0, &mut heap, &visited);
        while let Some(S(w, _, t)) = heap.pop() {
            if visited[t] {
                continue;
            }
            visited[t] = true;
            total += w;
            add(t, &mut heap, &visited);
        }
        total
    }

    /// number of unordered triples {a,b,c} of distinct nodes that are pairwise adjacent when
    /// direction, multiplicity and self-loops are ignored
    pub fn triangles(n: usize, edges: &[E]) -> usize {
        let mut a = symmetric_adj(n, edges);
        for i in 0..n {
            a[i][i] = false;
        }
        let mut c = 0;
        for i in 0..n {
            for j in i + 1..n {
                if a[i][j] {
                    for k in j + 1..n {
                        if a[i][k] && a[j][k] {
                            c += 1;
                        }
                    }
                }
            }
        }
        c
    }

    /// undirected LCC(v) = (edges among the distinct neighbours of v) / (d(d-1)/2), 0 when d < 2
    pub fn lcc_undirected(n: usize, edges: &[E]) -> Vec<f64> {
        let mut a = symmetric_adj(n, edges);
        for i in 0..n {
            a[i][i] = false;
        }
        (0..n)
            .map(|v| {
                let nb: Vec<usize> = (0..n).filter(|&j| a[v][j]).collect();
                let d = nb.len();
                if d < 2 {
                    return 0.0;
                }
                let mut e = 0usize;
                for x in 0..d {
                    for y in x + 1..d {
                        if a[nb[x]][nb[y]] {
                            e += 1;
                        }
                    }
                }
                e as f64 / ((d * (d - 1)) as f64 / 2.0)
            })
            .collect()
    }

    /// Fagiolo (2007): C(i) = ½[(A+Aᵀ)³]ᵢᵢ / (d_tot(d_tot−1) − 2 d_bi) on the simple digraph
    /// without self-loops (as lcc.rs documents, matching NetworkX), 0 when undefined
    pub fn lcc_fagiolo(n: usize, edges: &[E]) -> Vec<f64> {
        let mut a = vec![vec![0u64; n]; n];
        for &(u, v, _) in edges {
            if u != v {
                a[u][v] = 1;
            }
        }
        let s = |i: usize, j: usize| a[i][j] + a[j][i];
        (0..n)
            .map(|i| {
                let nb: Vec<usize> = (0..n).filter(|&j| s(i, j) > 0).collect();
                let mut cube = 0u64;
                for &j in &nb {
                    for &k in &nb {
                        cube += s(i, j) * s(j, k) * s(k, i);
                    }
                }
                let d_tot: u64 = nb.iter().map(|&j| s(i, j)).sum();
                let d_bi: u64 = nb.iter().map(|&j| a[i][j] * a[j][i]).sum();
                let denom = (d_tot * d_tot.saturating_sub(1)) as i64 - 2 * d_bi as i64;
                if cube == 0 || denom <= 0 {
                    0.0
                } else {
                    (cube as f64 / 2.0) / denom as f64
                }
            })
            .collect()
    }

    pub fn has_directed_cycle(n: usize, edges: &[E]) -> bool {
        if edges.iter().any(|e| e.0 == e.1) {
            return true;
        }
        let r = closure(n, &directed_adj(n, edges));
        edges.iter().any(|&(u, v, _)| r[v][u])
    }

    pub fn has_parallel(edges: &[E]) -> bool {
        let mut seen = BTreeSet::new();
        edges.iter().any(|&(u, v, _)| !seen.insert((u, v)))
    }
}

// =======================================================================================
// C26

const KF_PRIM: &str = "KF-C26-1";

#[derive(Clone, Debug, Serialize, Deserialize, PartialEq, Eq, Hash)]
struct Edge26 {
    u: usize,
    v: usize,
    /// weight (property `w`)
    w: u32,
    /// capacity (property `c`), used by the procedure-level projections
    c: u32,
    /// relationship type: 0 = R, 1 = S
    ty: u8,
    /// store the two properties as Float instead of Integer
    fl: bool,
}

#[derive(Clone, Debug, Serialize, Deserialize, PartialEq, Eq, Hash)]
struct Case26 {
    n: usize,
    edges: Vec<Edge26>,
    /// per node: bit 0 = label A, bit 1 = label B
    labels: Vec<u8>,
    /// (source, target) node pairs for path / flow questions (all pairs are asked when n <= 8)
    queries: Vec<(usize, usize)>,
    /// load into a GraphStore and compare the CALL algo.* procedures
    procs: bool,
    /// call compact_adjacency() after this many relationships were created
    compact_at: Option<usize>,
    /// (label selector, type selector) projections for wcc / lcc: 0 = none, 1 = A|R, 2 = B|S
    combos: Vec<(u8, u8)>,
}

impl Case26 {
    fn valid(&self) -> bool {
        self.labels.len() == self.n
            && self.edges.iter().all(|e| e.u < self.n && e.v < self.n && e.ty < 2)
            && self.queries.iter().all(|q| q.0 < self.n && q.1 < self.n)
            && self.combos.iter().all(|c| c.0 < 3 && c.1 < 3)
            && self.compact_at.map(|k| k <= self.edges.len()).unwrap_or(true)
    }
    fn wedges(&self) -> Vec<refm::E> {
        self.edges.iter().map(|e| (e.u, e.v, e.w as u64)).collect()
    }
}

#[derive(Default, Debug)]
struct Info26 {
    nontrivial: bool,
    feats: BTreeSet<&'static str>,
    kf_hits: u64,
}

/// node id used for node index i in the function-level views (deliberately not the index)
fn fid(i: usize) -> u64 {
    i as u64 * 3 + 5
}

fn pairs_for(n: usize, queries: &[(usize, usize)]) -> Vec<(usize, usize)> {
    if n <= 8 {
        (0..n).flat_map(|s| (0..n).map(move |t| (s, t))).collect()
    } else {
        let mut q: Vec<(usize, usize)> = queries.to_vec();
        q.sort();
        q.dedup();
        q
    }
}

/// A returned path must be a real path s→t whose cheapest realisation costs exactly the
/// optimum, and the reported cost must be that optimum; None iff unreachable.
fn judge_path(what: &str, path: Option<(Vec<usize>, f64)>, s: usize, t: usize, direct: &[Vec<Option<u64>>], opt: Option<u64>) -> Result<(), String> {
    match (path, opt) {
        (None, None) => Ok(()),
        (None, Some(d)) => Err(format!("{what}({s},{t}) returned no path but {t} is reachable at cost {d}")),
        (Some((p, c)), None) => Err(format!("{what}({s},{t}) returned path {p:?} cost {c} but {t} is unreachable")),
        (Some((p, c)), Some(d)) => {
            if p.first() != Some(&s) || p.last() != Some(&t) {
                return Err(format!("{what}({s},{t}) path {p:?} does not run from {s} to {t}"));
            }
            let mut sum = 0u64;
            for h in p.windows(2) {
                match direct[h[0]][h[1]] {
                    Some(w) => sum += w,
                    None => return Err(format!("{what}({s},{t}) path {p:?} uses {}→{} which is not an edge", h[0], h[1])),
                }
            }
            if sum != d {
                return Err(format!("{what}({s},{t}) path {p:?} costs {sum}, optimum is {d}"));
            }
            if c != d as f64 {
                return Err(format!("{what}({s},{t}) reports cost {c}, optimum is {d}"));
            }
            Ok(())
        }
    }
}

fn partition_of(what: &str, comps: &HashMap<usize, Vec<u64>>, node_comp: &HashMap<u64, usize>, n: usize, idx_of: &dyn Fn(u64) -> Option<usize>) -> Result<BTreeSet<BTreeSet<usize>>, String> {
    let mut out = BTreeSet::new();
    let mut count = 0;
    for (cid, members) in comps {
        let mut set = BTreeSet::new();
        for m in members {
            let i = idx_of(*m).ok_or_else(|| format!("{what}: unknown node id {m} in result"))?;
            if !set.insert(i) {
                return Err(format!("{what}: node {i} listed twice in component {cid}"));
            }
            if node_comp.get(m) != Some(cid) {
                return Err(format!("{what}: node {i} listed in component {cid} but node_component says {:?}", node_comp.get(m)));
            }
            count += 1;
        }
        out.insert(set);
    }
    if count != n || node_comp.len() != n {
        return Err(format!("{what}: {count} memberships / {} node entries for {n} nodes", node_comp.len()));
    }
    Ok(out)
}

fn show_partition(p: &BTreeSet<BTreeSet<usize>>) -> String {
    format!("{:?}", p.iter().map(|s| s.iter().cloned().collect::<Vec<_>>()).collect::<Vec<_>>())
}

/// spanning-tree sanity of a Prim result: k-1 edges, each a real edge of that weight between
/// its endpoints (either direction), acyclic and inside the start component, weights add up.
fn judge_tree(what: &str, tree: &[(usize, usize, f64)], total: f64, edges: &[refm::E], comp: &BTreeSet<usize>, n: usize) -> Result<(), String> {
    if tree.len() + 1 != comp.len().max(1) {
        return Err(format!("{what}: {} tree edges for a start component of {} nodes", tree.len(), comp.len()));
    }
    let mut p: Vec<usize> = (0..n).collect();
    fn find(p: &mut Vec<usize>, x: usize) -> usize {
        let mut r = x;
        while p[r] != r {
            r = p[r];
        }
        p[x] = r;
        r
    }
    let mut sum = 0.0;
    for &(a, b, w) in tree {
        if !comp.contains(&a) || !comp.contains(&b) {
            return Err(format!("{what}: tree edge ({a},{b}) leaves the start component"));
        }
        if !edges.iter().any(|e| ((e.0 == a && e.1 == b) || (e.0 == b && e.1 == a)) && e.2 as f64 == w) {
            return Err(format!("{what}: tree edge ({a},{b},{w}) is not an edge of the graph"));
        }
        let (x, y) = (find(&mut p, a), find(&mut p, b));
        if x == y {
            return Err(format!("{what}: tree edges contain a cycle at ({a},{b})"));
        }
        p[x] = y;
        sum += w;
    }
    if sum != total {
        return Err(format!("{what}: total_weight {total} but the tree edges add up to {sum}"));
    }
    Ok(())
}

/// MST weight oracle with the KF-C26-1 quirk switch. `order_out`/`order_inc` give the
/// adjacency order the code saw (needed only by the quirk model).
fn judge_mst_weight(what: &str, got: f64, n: usize, edges: &[refm::E], order_out: &[Vec<(usize, u64)>], order_inc: &[Vec<usize>], kf_on: bool, info: &mut Info26) -> Result<(), String> {
    if n == 0 {
        return if got == 0.0 { Ok(()) } else { Err(format!("{what}: weight {got} on the empty graph")) };
    }
    let (want, comp) = refm::kruskal(n, edges, 0);
    if n <= 5 {
        if let Some(b) = refm::brute_mst(n, edges, &comp) {
            if b != want {
                eprintln!("INCONCLUSIVE: harness reference disagreement: Kruskal {want} vs all spanning trees {b} on {edges:?}");
                std::process::exit(2);
            }
            info.feats.insert("mst_all_spanning_trees");
        }
    }
    if got == want as f64 {
        return Ok(());
    }
    if kf_on && got == refm::prim_model(n, order_out, order_inc, true) as f64 {
        info.kf_hits += 1;
        return Ok(());
    }
    Err(format!("{what}: total_weight {got}, minimum spanning tree of node 0's component weighs {want}"))
}

fn adjacency_order(n: usize, edges: &[refm::E]) -> (Vec<Vec<(usize, u64)>>, Vec<Vec<usize>>) {
    let mut out = vec![Vec::new(); n];
    let mut inc = vec![Vec::new(); n];
    for &(u, v, w) in edges {
        out[u].push((v, w));
        inc[v].push(u);
    }
    (out, inc)
}

const EPS: f64 = 1e-12;

/// Function-level oracle: the crate functions on views built by the harness.
fn c26_functions(case: &Case26, kf_on: bool, info: &mut Info26) -> Result<(), String> {
    let n = case.n;
    let edges = case.wedges();
    let unit: Vec<refm::E> = edges.iter().map(|e| (e.0, e.1, 1)).collect();
    let ids: Vec<u64> = (0..n).map(fid).collect();
    let fe: Vec<(usize, usize, f64)> = edges.iter().map(|e| (e.0, e.1, e.2 as f64)).collect();
    let vw = make_view(n, &ids, &fe, true);
    let vu = make_view(n, &ids, &fe, false);
    let idx_of = |id: u64| -> Option<usize> {
        if id >= 5 && (id - 5) % 3 == 0 && (((id - 5) / 3) as usize) < n {
            Some(((id - 5) / 3) as usize)
        } else {
            None
        }
    };
    let to_idx = |p: &alg::PathResult| -> Result<Vec<usize>, String> { p.path.iter().map(|id| idx_of(*id).ok_or_else(|| format!("unknown node id {id} in path"))).collect() };

    // components
    let want_w = refm::wcc(n, &edges);
    let r = catch(|| alg::weakly_connected_components(&vu)).map_err(|m| format!("weakly_connected_components panicked: {m}"))?;
    let got = partition_of("wcc", &r.components, &r.node_component, n, &idx_of)?;
    if got != want_w {
        return Err(format!("weakly_connected_components = {}, definition gives {}", show_partition(&got), show_partition(&want_w)));
    }
    let want_s = refm::scc(n, &edges);
    let r = catch(|| alg::strongly_connected_components(&vu)).map_err(|m| format!("strongly_connected_components panicked: {m}"))?;
    let got = partition_of("scc", &r.components, &r.node_component, n, &idx_of)?;
    if got != want_s {
        return Err(format!("strongly_connected_components = {}, definition gives {}", show_partition(&got), show_partition(&want_s)));
    }

    // paths and flows
    let hops = refm::floyd(n, &unit);
    let dist = refm::floyd(n, &edges);
    let direct_u = refm::direct_min(n, &unit);
    let direct_w = refm::direct_min(n, &edges);
    let small = n <= 8;
    for (s, t) in pairs_for(n, &case.queries) {
        if hops[s][t].is_none() {
            info.feats.insert("unreachable_pair");
        }
        let r = catch(|| alg::bfs(&vu, fid(s), fid(t))).map_err(|m| format!("bfs({s},{t}) panicked: {m}"))?;
        let p = match &r {
            Some(p) => Some((to_idx(p)?, p.cost)),
            None => None,
        };
        judge_path("bfs", p, s, t, &direct_u, hops[s][t])?;
        let r = catch(|| alg::dijkstra(&vw, fid(s), fid(t))).map_err(|m| format!("dijkstra({s},{t}) panicked: {m}"))?;
        let p = match &r {
            Some(p) => Some((to_idx(p)?, p.cost)),
            None => None,
        };
        judge_path("dijkstra", p, s, t, &direct_w, dist[s][t])?;
        if small {
            let r = catch(|| alg::dijkstra(&vu, fid(s), fid(t))).map_err(|m| format!("dijkstra(unweighted,{s},{t}) panicked: {m}"))?;
            let p = match &r {
                Some(p) => Some((to_idx(p)?, p.cost)),
                None => None,
            };
            judge_path("dijkstra(no weights)", p, s, t, &direct_u, hops[s][t])?;
        }
        if s != t {
            // max-flow is defined for s != t; edmonds_karp(s, s) does not terminate on the
            // pinned tree and is outside the domain (never generated)
            let want = if n <= 10 { refm::min_cut(n, &edges, s, t) } else { refm::ford_fulkerson(n, &edges, s, t) };
            let r = catch(|| alg::edmonds_karp(&vw, fid(s), fid(t))).map_err(|m| format!("edmonds_karp({s},{t}) panicked: {m}"))?;
            match r {
                Some(f) if f.max_flow == want as f64 => {}
                Some(f) => return Err(format!("edmonds_karp({s},{t}) = {}, minimum cut is {want}", f.max_flow)),
                None => return Err(format!("edmonds_karp({s},{t}) returned None for known nodes")),
            }
            if small {
                let want = refm::min_cut(n, &unit, s, t);
                let r = catch(|| alg::edmonds_karp(&vu, fid(s), fid(t))).map_err(|m| format!("edmonds_karp(unit,{s},{t}) panicked: {m}"))?;
                match r {
                    Some(f) if f.max_flow == want as f64 => {}
                    other => return Err(format!("edmonds_karp(no weights,{s},{t}) = {:?}, minimum cut is {want}", other.map(|f| f.max_flow))),
                }
            }
        }
    }

    // minimum spanning tree
    for (name, view, es) in [("prim_mst", &vw, &edges), ("prim_mst(no weights)", &vu, &unit)] {
        let r = catch(|| alg::prim_mst(view)).map_err(|m| format!("{name} panicked: {m}"))?;
        let (oo, oi) = adjacency_order(n, es);
        judge_mst_weight(name, r.total_weight, n, es, &oo, &oi, kf_on, info)?;
        if n > 0 {
            let (_, comp) = refm::kruskal(n, es, 0);
            let mut tree = Vec::new();
            for (a, b, w) in &r.edges {
                tree.push((idx_of(*a).ok_or("unknown id in mst edge")?, idx_of(*b).ok_or("unknown id in mst edge")?, *w));
            }
            judge_tree(name, &tree, r.total_weight, es, &comp, n)?;
        } else if !r.edges.is_empty() {
            return Err(format!("{name}: edges on the empty graph"));
        }
    }

    // triangles and clustering
    let want_t = refm::triangles(n, &edges);
    let got_t = catch(|| alg::count_triangles(&vu)).map_err(|m| format!("count_triangles panicked: {m}"))?;
    if got_t != want_t {
        return Err(format!("count_triangles = {got_t}, definition gives {want_t}"));
    }
    for (name, directed, want) in [("local_clustering_coefficient", false, refm::lcc_undirected(n, &edges)), ("local_clustering_coefficient_directed", true, refm::lcc_fagiolo(n, &edges))] {
        let r = catch(|| if directed { alg::local_clustering_coefficient_directed(&vu, true) } else { alg::local_clustering_coefficient(&vu) }).map_err(|m| format!("{name} panicked: {m}"))?;
        if r.coefficients.len() != n {
            return Err(format!("{name}: {} coefficients for {n} nodes", r.coefficients.len()));
        }
        let mut sum = 0.0;
        for i in 0..n {
            let g = *r.coefficients.get(&fid(i)).ok_or_else(|| format!("{name}: node {i} missing"))?;
            if (g - want[i]).abs() > EPS {
                return Err(format!("{name}: node {i} has {g}, definition gives {}", want[i]));
            }
            sum += want[i];
        }
        let avg = if n > 0 { sum / n as f64 } else { 0.0 };
        if (r.average - avg).abs() > EPS {
            return Err(format!("{name}: average {}, definition gives {avg}", r.average));
        }
    }

    // features / non-triviality
    let cyc = refm::has_directed_cycle(n, &edges);
    let par = refm::has_parallel(&edges);
    if cyc {
        info.feats.insert("has_cycle");
    }
    if par {
        info.feats.insert("has_parallel");
    }
    if want_w.len() >= 2 {
        info.feats.insert("multi_component");
    }
    if want_t >= 1 {
        info.feats.insert("has_triangle");
    }
    if edges.iter().any(|e| e.0 == e.1) {
        info.feats.insert("has_selfloop");
    }
    if edges.iter().any(|e| e.2 == 0) {
        info.feats.insert("zero_weight");
    }
    // a heavier parallel edge listed before a lighter one (the shape behind KF-C26-1)
    let mut first: BTreeMap<(usize, usize), u64> = BTreeMap::new();
    for &(u, v, w) in &edges {
        if let Some(f) = first.get(&(u, v)) {
            if w < *f {
                info.feats.insert("parallel_heavier_first");
            }
        } else {
            first.insert((u, v), w);
        }
    }
    info.nontrivial = (cyc || par) && (want_w.len() >= 2 || want_t >= 1);
    Ok(())
}

// ---------------------------------------------------------------------------------------
// C26, procedure level: the same graph in a GraphStore, asked through CALL algo.*

const LABELS: [&str; 2] = ["A", "B"];
const TYPES: [&str; 2] = ["R", "S"];

struct Loaded {
    store: GraphStore,
    /// store id of node index i
    ids: Vec<u64>,
}

fn load_store(case: &Case26) -> Result<Loaded, String> {
    let mut store = GraphStore::new();
    let mut ids = Vec::new();
    for i in 0..case.n {
        let ls: Vec<Label> = (0..2).filter(|b| case.labels[i] & (1 << b) != 0).map(|b| Label::new(LABELS[b])).collect();
        ids.push(store.create_node_with_labels(ls).as_u64());
    }
    let num = |x: u32, fl: bool| if fl { PropertyValue::Float(x as f64) } else { PropertyValue::Integer(x as i64) };
    for (k, e) in case.edges.iter().enumerate() {
        if case.compact_at == Some(k) {
            quiet_stderr(|| store.compact_adjacency())?;
        }
        let eid = store
            .create_edge(samyama::graph::NodeId::new(ids[e.u]), samyama::graph::NodeId::new(ids[e.v]), TYPES[e.ty as usize])
            .map_err(|x| format!("create_edge refused: {x}"))?;
        store.set_edge_property_sparse(eid, "w", num(e.w, e.fl));
        store.set_edge_property_sparse(eid, "c", num(e.c, e.fl));
    }
    if case.compact_at == Some(case.edges.len()) {
        quiet_stderr(|| store.compact_adjacency())?;
    }
    Ok(Loaded { store, ids })
}

type Rows = Vec<BTreeMap<String, RowVal>>;
#[derive(Clone, Debug, PartialEq)]
enum RowVal {
    Node(u64),
    Int(i64),
    Float(f64),
    List(Vec<i64>),
    Other(String),
}

fn run_proc(engine: &QueryEngine, store: &GraphStore, q: &str, cols: &[&str]) -> Result<Rows, String> {
    let batch = match catch(|| engine.execute(q, store).map_err(|e| e.to_string())) {
        Ok(Ok(b)) => b,
        Ok(Err(e)) => return Err(format!("`{q}` failed: {e}")),
        Err(p) => return Err(format!("`{q}` panicked: {p}")),
    };
    let mut rows = Vec::new();
    for r in &batch.records {
        let mut m = BTreeMap::new();
        for c in cols {
            if let Some(v) = r.get(c) {
                let rv = if let Some((id, _)) = v.as_node() {
                    RowVal::Node(id.as_u64())
                } else {
                    match v.as_property() {
                        Some(PropertyValue::Integer(i)) => RowVal::Int(*i),
                        Some(PropertyValue::Float(f)) => RowVal::Float(*f),
                        Some(PropertyValue::Array(a)) => {
                            let ints: Vec<i64> = a.iter().filter_map(|x| x.as_integer()).collect();
                            if ints.len() == a.len() {
                                RowVal::List(ints)
                            } else {
                                RowVal::Other(format!("{a:?}"))
                            }
                        }
                        other => RowVal::Other(format!("{other:?}")),
                    }
                };
                m.insert(c.to_string(), rv);
            }
        }
        rows.push(m);
    }
    Ok(rows)
}

fn lit(s: Option<&str>) -> String {
    match s {
        Some(x) => format!("'{x}'"),
        None => "null".to_string(),
    }
}

/// rows (node, <key>) → per projected node index its value; every projected node exactly once
fn node_rows(q: &str, rows: &Rows, key: &str, ids: &[u64], members: &[usize]) -> Result<BTreeMap<usize, RowVal>, String> {
    let mut out = BTreeMap::new();
    for r in rows {
        let id = match r.get("node") {
            Some(RowVal::Node(id)) => *id,
            other => return Err(format!("`{q}`: row without a node: {other:?}")),
        };
        let i = ids.iter().position(|x| *x == id).ok_or_else(|| format!("`{q}`: unknown node id {id}"))?;
        if !members.contains(&i) {
            return Err(format!("`{q}`: node {i} is outside the requested projection"));
        }
        let v = r.get(key).cloned().ok_or_else(|| format!("`{q}`: row without {key}"))?;
        if out.insert(i, v).is_some() {
            return Err(format!("`{q}`: node {i} returned twice"));
        }
    }
    if out.len() != members.len() {
        return Err(format!("`{q}`: {} rows for a projection of {} nodes", out.len(), members.len()));
    }
    Ok(out)
}

fn c26_procs(case: &Case26, engine: &QueryEngine, kf_on: bool, info: &mut Info26) -> Result<(), String> {
    let n = case.n;
    let ld = load_store(case)?;
    let store = &ld.store;
    let ids = &ld.ids;
    info.feats.insert("procs_checked");
    if case.compact_at.is_some() {
        info.feats.insert("store_compacted");
    }

    // projections with label / type: wcc and lcc
    let combos: Vec<(u8, u8)> = if n <= 8 { (0..3u8).flat_map(|l| (0..3u8).map(move |t| (l, t))).collect() } else { case.combos.clone() };
    for (l, t) in combos {
        let label = if l == 0 { None } else { Some(LABELS[l as usize - 1]) };
        let ty = if t == 0 { None } else { Some(TYPES[t as usize - 1]) };
        let members: Vec<usize> = (0..n).filter(|&i| l == 0 || case.labels[i] & (1 << (l - 1)) != 0).collect();
        let pos: BTreeMap<usize, usize> = members.iter().enumerate().map(|(k, &i)| (i, k)).collect();
        let pe: Vec<refm::E> = case
            .edges
            .iter()
            .filter(|e| (t == 0 || e.ty == t - 1) && pos.contains_key(&e.u) && pos.contains_key(&e.v))
            .map(|e| (pos[&e.u], pos[&e.v], e.w as u64))
            .collect();
        let args = match (label, ty) {
            (None, None) => String::new(),
            (Some(_), None) => lit(label),
            _ => format!("{}, {}", lit(label), lit(ty)),
        };
        if l != 0 || t != 0 {
            info.feats.insert("proc_label_or_type_projection");
        }
        let q = format!("CALL algo.wcc({args}) YIELD node, componentId");
        let rows = run_proc(engine, store, &q, &["node", "componentId"])?;
        let by_node = node_rows(&q, &rows, "componentId", ids, &members)?;
        let mut groups: BTreeMap<String, BTreeSet<usize>> = BTreeMap::new();
        for (i, v) in &by_node {
            groups.entry(format!("{v:?}")).or_default().insert(pos[i]);
        }
        let got: BTreeSet<BTreeSet<usize>> = groups.into_values().collect();
        let want = refm::wcc(members.len(), &pe);
        if got != want {
            return Err(format!("`{q}` partitions the projection (nodes {members:?}) as {}, definition gives {}", show_partition(&got), show_partition(&want)));
        }
        let q = format!("CALL algo.lcc({args}) YIELD node, coefficient");
        let rows = run_proc(engine, store, &q, &["node", "coefficient"])?;
        let by_node = node_rows(&q, &rows, "coefficient", ids, &members)?;
        let want = refm::lcc_undirected(members.len(), &pe);
        for (i, v) in &by_node {
            match v {
                RowVal::Float(f) if (f - want[pos[i]]).abs() <= EPS => {}
                other => return Err(format!("`{q}`: node {i} has {other:?}, definition gives {}", want[pos[i]])),
            }
        }
    }

    // whole-graph procedures
    let all: Vec<usize> = (0..n).collect();
    let we = case.wedges();
    let ce: Vec<refm::E> = case.edges.iter().map(|e| (e.u, e.v, e.c as u64)).collect();
    let ue: Vec<refm::E> = we.iter().map(|e| (e.0, e.1, 1)).collect();
    {
        let q = "CALL algo.scc() YIELD node, componentId".to_string();
        let rows = run_proc(engine, store, &q, &["node", "componentId"])?;
        let by_node = node_rows(&q, &rows, "componentId", ids, &all)?;
        let mut groups: BTreeMap<String, BTreeSet<usize>> = BTreeMap::new();
        for (i, v) in &by_node {
            groups.entry(format!("{v:?}")).or_default().insert(*i);
        }
        let got: BTreeSet<BTreeSet<usize>> = groups.into_values().collect();
        let want = refm::scc(n, &we);
        if got != want {
            return Err(format!("`{q}` gives {}, definition gives {}", show_partition(&got), show_partition(&want)));
        }
        let q = "CALL algo.triangleCount() YIELD triangles".to_string();
        let rows = run_proc(engine, store, &q, &["triangles"])?;
        let want = refm::triangles(n, &we) as i64;
        if rows.len() != 1 || rows[0].get("triangles") != Some(&RowVal::Int(want)) {
            return Err(format!("`{q}` returned {rows:?}, definition gives {want}"));
        }
    }

    // minimum spanning tree under each weight projection; the start node is the first node
    // of the view = the store's first node (index 0)
    if n > 0 {
        // adjacency order as the store hands it out (parallel-edge order matters only to the
        // quirk model of KF-C26-1)
        let store_order = |prop: &str| -> (Vec<Vec<(usize, u64)>>, Vec<Vec<usize>>) {
            let mut out = vec![Vec::new(); n];
            let mut inc = vec![Vec::new(); n];
            for u in 0..n {
                for e in store.get_outgoing_edges(samyama::graph::NodeId::new(ids[u])) {
                    let v = ids.iter().position(|x| *x == e.target.as_u64()).unwrap_or(0);
                    let w = match e.get_property(prop) {
                        Some(PropertyValue::Integer(i)) => *i as u64,
                        Some(PropertyValue::Float(f)) => *f as u64,
                        _ => 1,
                    };
                    out[u].push((v, w));
                    inc[v].push(u);
                }
            }
            (out, inc)
        };
        for (arg, prop, es) in [("'w'", "w", &we), ("'c'", "c", &ce), ("", "", &ue)] {
            let q = format!("CALL algo.mst({arg}) YIELD source, target, weight, total_weight");
            let rows = run_proc(engine, store, &q, &["source", "target", "weight", "total_weight"])?;
            let totals: Vec<f64> = rows.iter().filter_map(|r| if let Some(RowVal::Float(f)) = r.get("total_weight") { Some(*f) } else { None }).collect();
            if totals.len() != 1 {
                return Err(format!("`{q}`: {} total_weight rows", totals.len()));
            }
            let (oo, oi) = store_order(prop);
            judge_mst_weight(&format!("`{q}`"), totals[0], n, es, &oo, &oi, kf_on, info)?;
            let mut tree = Vec::new();
            for r in rows.iter().filter(|r| !r.contains_key("total_weight")) {
                match (r.get("source"), r.get("target"), r.get("weight")) {
                    (Some(RowVal::Node(a)), Some(RowVal::Node(b)), Some(RowVal::Float(w))) => {
                        let ia = ids.iter().position(|x| x == a).ok_or_else(|| format!("`{q}`: unknown node {a}"))?;
                        let ib = ids.iter().position(|x| x == b).ok_or_else(|| format!("`{q}`: unknown node {b}"))?;
                        tree.push((ia, ib, *w));
                    }
                    _ => return Err(format!("`{q}`: malformed edge row {r:?}")),
                }
            }
            let (_, comp) = refm::kruskal(n, es, 0);
            judge_tree(&format!("`{q}`"), &tree, totals[0], es, &comp, n)?;
        }
    }

    // paths and flows for the asked pairs
    let hops = refm::floyd(n, &ue);
    let dw = refm::floyd(n, &we);
    let dc = refm::floyd(n, &ce);
    let (du, dmw, dmc) = (refm::direct_min(n, &ue), refm::direct_min(n, &we), refm::direct_min(n, &ce));
    let mut qs = case.queries.clone();
    qs.sort();
    qs.dedup();
    for (s, t) in qs {
        let path_rows = |q: &str| -> Result<Option<(Vec<usize>, f64)>, String> {
            let rows = run_proc(engine, store, q, &["path", "cost"])?;
            match rows.len() {
                0 => Ok(None),
                1 => match (rows[0].get("path"), rows[0].get("cost")) {
                    (Some(RowVal::List(p)), Some(RowVal::Float(c))) => {
                        let mut idx = Vec::new();
                        for id in p {
                            idx.push(ids.iter().position(|x| *x as i64 == *id).ok_or_else(|| format!("`{q}`: unknown node id {id} in path"))?);
                        }
                        Ok(Some((idx, *c)))
                    }
                    _ => Err(format!("`{q}`: malformed row {:?}", rows[0])),
                },
                k => Err(format!("`{q}`: {k} rows")),
            }
        };
        let (a, b) = (ids[s], ids[t]);
        let q = format!("CALL algo.shortestPath({a}, {b}) YIELD path, cost");
        judge_path(&format!("`{q}`"), path_rows(&q)?, s, t, &du, hops[s][t])?;
        let q = format!("CALL algo.shortestPath({a}, {b}, {{weight_property: 'w'}}) YIELD path, cost");
        judge_path(&format!("`{q}`"), path_rows(&q)?, s, t, &dmw, dw[s][t])?;
        let q = format!("CALL algo.weightedPath({a}, {b}, 'c') YIELD path, cost");
        judge_path(&format!("`{q}`"), path_rows(&q)?, s, t, &dmc, dc[s][t])?;
        if s != t {
            for (arg, es) in [(", 'w'", &we), (", 'c'", &ce), ("", &ue)] {
                let q = format!("CALL algo.maxFlow({a}, {b}{arg}) YIELD max_flow");
                let rows = run_proc(engine, store, &q, &["max_flow"])?;
                let want = if n <= 10 { refm::min_cut(n, es, s, t) } else { refm::ford_fulkerson(n, es, s, t) };
                if rows.len() != 1 || rows[0].get("max_flow") != Some(&RowVal::Float(want as f64)) {
                    return Err(format!("`{q}` returned {rows:?}, minimum cut is {want}"));
                }
            }
        }
    }

    // count_triangles_leapfrog documents its own definition: Σ over edges (a,b) of
    // |N_out(b) ∩ N_in(a)|, read from the frozen tier. Asserted where that is unambiguous:
    // simple loop-free digraph, adjacency fully compacted once.
    let simple = !refm::has_parallel(&we) && we.iter().all(|e| e.0 != e.1);
    if simple && case.compact_at == Some(case.edges.len()) && !case.edges.is_empty() {
        let a = refm::directed_adj(n, &we);
        let mut want = 0u64;
        for &(x, y, _) in &we {
            for z in 0..n {
                if a[y][z] && a[z][x] {
                    want += 1;
                }
            }
        }
        let got = catch(|| samyama::query::executor::leapfrog::count_triangles_leapfrog(store)).map_err(|m| format!("count_triangles_leapfrog panicked: {m}"))?;
        info.feats.insert("leapfrog_checked");
        if got != want {
            return Err(format!("count_triangles_leapfrog = {got}, its documented definition gives {want}"));
        }
    }
    Ok(())
}

fn c26_check(case: &Case26, engine: &QueryEngine, kf_on: bool) -> Result<Info26, String> {
    let mut info = Info26::default();
    c26_functions(case, kf_on, &mut info)?;
    if case.procs {
        c26_procs(case, engine, kf_on, &mut info)?;
    }
    Ok(info)
}

// ---------------------------------------------------------------------------------------
// C26 generators

const WEIGHTS: [u32; 16] = [1, 1, 2, 2, 3, 5, 5, 7, 9, 10, 0, 1, 2, 4, 6, 8];

/// (kind, a, b, weight selector, capacity selector, type, float)
type RawEdge = (u8, u16, u16, u8, u8, u8, bool);
/// (n selector, blocks, edges, labels, queries, procs selector, compaction selector, combos)
type Raw26 = (u16, u8, Vec<RawEdge>, Vec<u8>, Vec<(u16, u16)>, u8, (u8, u16), Vec<(u8, u8)>);

fn raw26_strategy(n_hi: usize, m_hi: usize) -> BoxedStrategy<Raw26> {
    let edge = (0u8..12, any::<u16>(), any::<u16>(), 0u8..16, 0u8..16, 0u8..2, any::<bool>());
    (
        any::<u16>(),
        1u8..=4,
        proptest::collection::vec(edge, 0..=m_hi),
        proptest::collection::vec(0u8..4, n_hi),
        proptest::collection::vec((any::<u16>(), any::<u16>()), 1..=6),
        0u8..4,
        (0u8..4, any::<u16>()),
        proptest::collection::vec((0u8..3, 0u8..3), 1..=3),
    )
        .boxed()
}

/// Construction (never rejection): every raw value maps to a valid case.
fn build26(raw: &Raw26, n_lo: usize, n_hi: usize) -> Case26 {
    let (nsel, blocks, redges, rlabels, rq, procs, (csel, cpos), combos) = raw;
    let n = n_lo + pick_idx(*nsel, n_hi - n_lo + 1);
    let k = (*blocks as usize).min(n.max(1));
    let mut edges: Vec<Edge26> = Vec::new();
    for (kind, a, b, ws, cs, ty, fl) in redges {
        if n == 0 {
            break;
        }
        let (w, c) = (WEIGHTS[*ws as usize], WEIGHTS[*cs as usize]);
        let prev = edges.last().map(|e| (e.u, e.v));
        let (u, v) = match (*kind, prev) {
            (7 | 8, Some((pu, pv))) => (pu, pv), // parallel to the previous edge
            (9, Some((pu, pv))) => (pv, pu),     // antiparallel to the previous edge
            (10, _) => {
                let u = pick_idx(*a, n);
                (u, u)
            }
            _ => {
                // fresh edge inside u's block (blocks keep several components alive)
                let u = pick_idx(*a, n);
                let r = u % k;
                let cnt = (n - r + k - 1) / k;
                (u, r + k * pick_idx(*b, cnt))
            }
        };
        edges.push(Edge26 { u, v, w, c, ty: *ty, fl: *fl });
    }
    let labels: Vec<u8> = (0..n).map(|i| rlabels.get(i).cloned().unwrap_or(0)).collect();
    let queries: Vec<(usize, usize)> = if n == 0 { vec![] } else { rq.iter().map(|(a, b)| (pick_idx(*a, n), pick_idx(*b, n))).collect() };
    let compact_at = match csel {
        0 | 1 => None,
        2 => Some(edges.len()),
        _ => Some(pick_idx(*cpos, edges.len() + 1)),
    };
    Case26 { n, edges, labels, queries, procs: *procs != 0, compact_at, combos: combos.clone() }
}

/// the simple digraph (self-loops allowed) on n nodes with adjacency bitmask `mask`,
/// weights from {1,2,5} by a seed-keyed function
fn exhaustive26(n: usize, mask: u32, seed: u64, procs: bool) -> Case26 {
    let mut edges = Vec::new();
    for u in 0..n {
        for v in 0..n {
            if mask & (1 << (u * n + v)) != 0 {
                let h = fnv(&(seed, n, mask, u, v));
                edges.push(Edge26 { u, v, w: [1, 2, 5][(h % 3) as usize], c: [1, 2, 5][((h >> 8) % 3) as usize], ty: ((h >> 16) & 1) as u8, fl: (h >> 17) & 1 == 1 });
            }
        }
    }
    let h = fnv(&(seed, n, mask));
    let labels = (0..n).map(|i| ((h >> (2 * i)) & 3) as u8).collect();
    let queries = if n == 0 { vec![] } else { vec![((h >> 20) as usize % n, (h >> 24) as usize % n), ((h >> 28) as usize % n, (h >> 32) as usize % n)] };
    let compact_at = if (h >> 40) & 1 == 1 { Some(edges.len()) } else { None };
    Case26 { n, edges, labels, queries, procs, compact_at, combos: vec![] }
}

/// greedy structural shrink of a failing case: drop edges, drop unused trailing nodes,
/// drop queries, lower weights, switch the store part off
fn shrink26(case: Case26, fails: &dyn Fn(&Case26) -> bool) -> Case26 {
    let mut best = case;
    loop {
        let before = best.clone();
        // edges
        let base = best.clone();
        let es = shrink_vec(best.edges.clone(), &|cand: &[Edge26]| {
            let mut c = base.clone();
            c.edges = cand.to_vec();
            c.compact_at = c.compact_at.map(|k| k.min(c.edges.len()));
            fails(&c)
        });
        best.edges = es;
        best.compact_at = best.compact_at.map(|k| k.min(best.edges.len()));
        // queries
        let base = best.clone();
        best.queries = shrink_vec(best.queries.clone(), &|cand: &[(usize, usize)]| {
            let mut c = base.clone();
            c.queries = cand.to_vec();
            fails(&c)
        });
        // node removal: delete node i when nothing refers to it, renumbering above it
        let mut i = best.n;
        while i > 0 {
            i -= 1;
            if best.edges.iter().any(|e| e.u == i || e.v == i) || best.queries.iter().any(|q| q.0 == i || q.1 == i) {
                continue;
            }
            let mut c = best.clone();
            c.n -= 1;
            c.labels.remove(i);
            let f = |x: usize| if x > i { x - 1 } else { x };
            for e in &mut c.edges {
                e.u = f(e.u);
                e.v = f(e.v);
            }
            for q in &mut c.queries {
                *q = (f(q.0), f(q.1));
            }
            if fails(&c) {
                best = c;
            }
        }
        // simplifications, each applied to the current best
        let mut muts: Vec<Box<dyn Fn(&Case26) -> Case26>> = Vec::new();
        muts.push(Box::new(|b| {
            let mut c = b.clone();
            c.procs = false;
            c
        }));
        muts.push(Box::new(|b| {
            let mut c = b.clone();
            c.compact_at = None;
            c
        }));
        muts.push(Box::new(|b| {
            let mut c = b.clone();
            c.labels = vec![0; c.n];
            c
        }));
        muts.push(Box::new(|b| {
            let mut c = b.clone();
            c.combos.clear();
            c
        }));
        for k in 0..best.edges.len() {
            for which in 0..4u8 {
                muts.push(Box::new(move |b| {
                    let mut c = b.clone();
                    match which {
                        0 => c.edges[k].w = 1,
                        1 => c.edges[k].c = 1,
                        2 => c.edges[k].fl = false,
                        _ => c.edges[k].ty = 0,
                    }
                    c
                }));
            }
        }
        for m in &muts {
            let c = m(&best);
            if c != best && fails(&c) {
                best = c;
            }
        }
        if best == before {
            return best;
        }
    }
}

fn c26(args: &Args) {
    let mut ev = Evidence::new(
        args,
        "exploration",
        "every simple digraph with self-loops on <= 3 nodes (and on 4 nodes: 65 536) with weights from {1,2,5}, plus random directed multigraphs (parallel edges in both weight orders, antiparallel edges, self-loops, several components) up to 300 nodes; crate functions and CALL algo.* procedures (label / type / weight-property projections over a GraphStore, optionally compacted) judged against brute-force references (closure partitions, Floyd-Warshall, minimum over all s-t cuts, Kruskal and all spanning trees, triangle / LCC / Fagiolo definitions). Non-trivial = (graph has a directed cycle or a parallel edge) and (>= 2 weak components or >= 1 triangle); distinct = distinct cases.",
    );
    ev.assume("max-flow is asked only for source != sink (edmonds_karp(s, s) does not terminate on the pinned tree; outside max-flow's domain, never generated)");
    ev.assume("weights and capacities are small non-negative integers (Dijkstra's precondition; float sums exact)");
    ev.assume("procedure arguments are the documented shapes; algo.scc / algo.mst / algo.triangleCount / paths / flows project the whole graph, algo.wcc / algo.lcc take label and type");
    let kf = Known::load(args);
    let engine = QueryEngine::new();

    // known finding witness → matcher on/off
    if let Some(w) = witness_case(&kf, KF_PRIM) {
        if let Ok(case) = serde_json::from_value::<Case26>(w) {
            if case.valid() {
                let still = !matches!(catch(|| c26_check(&case, &engine, false)), Ok(Ok(_)));
                kf.witness_result(&mut ev, KF_PRIM, still);
            }
        }
    }
    let kf_on = kf.active(KF_PRIM);

    if let Some(p) = &args.replay {
        let case: Case26 = serde_json::from_value(load_replay(p)).unwrap_or_else(|e| {
            eprintln!("replay case does not parse: {e}");
            std::process::exit(2)
        });
        if !case.valid() {
            eprintln!("replay case is not a valid C26 case");
            std::process::exit(2);
        }
        ev.case();
        match catch(|| c26_check(&case, &engine, kf_on)) {
            Ok(Ok(i)) => {
                for _ in 0..i.kf_hits {
                    ev.kf_hit(KF_PRIM);
                }
                println!("replay: property held{}", if i.kf_hits > 0 { " (known finding matched)" } else { "" })
            }
            Ok(Err(m)) | Err(m) => {
                report_violation(&mut ev, &json!(case), &m);
            }
        }
        ev.nontrivial(&case);
        ev.nontrivial(&"replay");
        ev.sample(json!(case));
        finish(&ev);
    }

    let mut failure: Option<(Case26, String)> = None;
    let record = |ev: &mut Evidence, case: &Case26, info: &Info26, class: &str| {
        ev.class(class);
        for f in &info.feats {
            ev.class(f);
        }
        for _ in 0..info.kf_hits {
            ev.kf_hit(KF_PRIM);
        }
        if info.nontrivial {
            ev.nontrivial(case);
            ev.class("nontrivial");
            if ev.want_sample() && case.edges.len() <= 12 && case.procs && info.feats.contains("has_parallel") {
                ev.sample(json!(case));
            }
        }
    };

    // regression corpus first
    for (p, v) in corpus_cases("C26") {
        let case: Case26 = match serde_json::from_value(v) {
            Ok(c) => c,
            Err(e) => {
                eprintln!("corpus file {} skipped: {e}", p.display());
                ev.class("corpus_unreadable");
                continue;
            }
        };
        if !case.valid() {
            eprintln!("corpus file {} skipped: not a valid case", p.display());
            ev.class("corpus_unreadable");
            continue;
        }
        ev.case();
        match catch(|| c26_check(&case, &engine, kf_on)) {
            Ok(Ok(i)) => record(&mut ev, &case, &i, "corpus"),
            Ok(Err(m)) | Err(m) => {
                report_violation(&mut ev, &json!(case), &format!("{m} (corpus {})", p.display()));
                finish(&ev);
            }
        }
    }

    // bounded-exhaustive part
    let max_n = 4usize;
    'exh: for n in 0..=max_n {
        let bits = n * n;
        for mask in 0u32..(1u64 << bits) as u32 {
            // procedures on every graph up to 3 nodes and on a seed-keyed 1/8 (thorough: 1/2) of the 4-node graphs
            let procs = n <= 3 || fnv(&(args.seed, mask)) % args.tier.pick(8, 2) == 0;
            let case = exhaustive26(n, mask, args.seed, procs);
            ev.case();
            match catch(|| c26_check(&case, &engine, kf_on)) {
                Ok(Ok(i)) => record(&mut ev, &case, &i, if n <= 3 { "exhaustive_n<=3" } else { "exhaustive_n4" }),
                Ok(Err(m)) | Err(m) => {
                    ev.frozen = true;
                    failure = Some((case, m));
                    break 'exh;
                }
            }
        }
    }
    ev.exhaustive = Some(failure.is_none());
    ev.set("exhaustive_bound", json!({"simple_digraphs_with_self_loops_on_nodes": format!("0..={max_n}"), "weights": "{1,2,5} seed-keyed"}));

    // random multigraphs
    if failure.is_none() {
        let plan: [(&str, usize, usize, usize, u32, u32); 3] = [
            ("random_small", 1, 8, 24, 3000, 120_000),
            ("random_medium", 9, 60, 160, 1500, 60_000),
            ("random_large", 100, 300, 900, 40, 1_500),
        ];
        for (k, (class, n_lo, n_hi, m_hi, q, t)) in plan.iter().enumerate() {
            let strat = raw26_strategy(*n_hi, *m_hi);
            let evc = RefCell::new(&mut ev);
            let res = search(args.seed.wrapping_add(k as u64), args.tier.pick(*q, *t), &strat, |raw| {
                let case = build26(raw, *n_lo, *n_hi);
                let mut e = evc.borrow_mut();
                e.case();
                match catch(|| c26_check(&case, &engine, kf_on)) {
                    Ok(Ok(i)) => {
                        record(&mut **e, &case, &i, class);
                        Ok(())
                    }
                    Ok(Err(m)) | Err(m) => {
                        e.frozen = true;
                        Err(m)
                    }
                }
            });
            drop(evc);
            if let Some((raw, msg)) = res {
                failure = Some((build26(&raw, *n_lo, *n_hi), msg));
                break;
            }
        }
    }

    if let Some((case, msg)) = failure {
        ev.frozen = true;
        let fails = |c: &Case26| c.valid() && !matches!(catch(|| c26_check(c, &engine, kf_on)), Ok(Ok(_)));
        let min = shrink26(case, &fails);
        let msg2 = match catch(|| c26_check(&min, &engine, kf_on)) {
            Ok(Err(m)) | Err(m) => m,
            _ => msg,
        };
        report_violation(&mut ev, &json!(min), &msg2);
    }
    finish(&ev);
}

// =======================================================================================
// C27

const DAMPING: [f64; 3] = [0.5, 0.85, 1.0];
const ITERS: [usize; 4] = [0, 1, 5, 20];
const TOLS: [f64; 3] = [0.0, 1e-4, 1e3];
const CDLP_ITERS: [usize; 4] = [0, 1, 3, 100];
/// both algorithms switch to their rayon path at this node count (pagerank.rs / cdlp.rs: `n >= 1000`)
const PAR_THRESHOLD: usize = 1000;

#[derive(Clone, Copy, Debug, Serialize, Deserialize, PartialEq, Eq, Hash)]
struct PrCfg {
    d: u8,
    it: u8,
    tol: u8,
    dangling: bool,
}

#[derive(Clone, Debug, Serialize, Deserialize, PartialEq, Eq, Hash)]
struct Case27 {
    n: usize,
    /// simple digraph: no self-loops, no parallel edges
    edges: Vec<(usize, usize)>,
    /// node id of index i = 1 + (i * id_mul + id_add) mod n (a permutation: labels are node
    /// ids and ties break on the smallest id, so the id order must not coincide with the index order)
    id_mul: u64,
    id_add: u64,
    pr: Vec<PrCfg>,
    /// indexes into CDLP_ITERS
    cdlp: Vec<u8>,
}

fn gcd(a: u64, b: u64) -> u64 {
    if b == 0 {
        a
    } else {
        gcd(b, a % b)
    }
}

impl Case27 {
    fn ids(&self) -> Vec<u64> {
        let n = self.n as u64;
        (0..n).map(|i| 1 + (i * self.id_mul + self.id_add) % n).collect()
    }
    fn valid(&self) -> bool {
        let mut seen = BTreeSet::new();
        let ids: BTreeSet<u64> = self.ids().into_iter().collect();
        ids.len() == self.n
            && self.edges.iter().all(|e| e.0 < self.n && e.1 < self.n && e.0 != e.1 && seen.insert(*e))
            && self.pr.iter().all(|c| (c.d as usize) < 3 && (c.it as usize) < 4 && (c.tol as usize) < 3)
            && self.cdlp.iter().all(|c| (*c as usize) < 4)
    }
}

/// The LDBC Graphalytics PageRank iteration as pagerank.rs documents it, written edge-wise:
/// PR₀ = 1/N; PRₖ₊₁(v) = (1-d)/N + d·(Σ_{u→v} PRₖ(u)/out(u) + [redistribute] Σ_{dangling u} PRₖ(u)/N);
/// at most `iterations` rounds, stopping after a round whose Σ|Δ| < tolerance.
/// Also reports whether some round's Σ|Δ| came within 1e-9 of a positive tolerance.
fn pr_reference(n: usize, edges: &[(usize, usize)], d: f64, iterations: usize, tol: f64, dangling: bool) -> (Vec<f64>, bool) {
    let mut outdeg = vec![0usize; n];
    for &(u, _) in edges {
        outdeg[u] += 1;
    }
    let nf = n as f64;
    let mut pr = vec![1.0 / nf; n];
    let mut near = false;
    for _ in 0..iterations {
        let mut acc = vec![0.0f64; n];
        for &(u, v) in edges {
            acc[v] += pr[u] / outdeg[u] as f64;
        }
        let lost: f64 = if dangling { (0..n).filter(|&i| outdeg[i] == 0).map(|i| pr[i]).sum::<f64>() / nf } else { 0.0 };
        let next: Vec<f64> = (0..n).map(|v| (1.0 - d) / nf + d * (acc[v] + lost)).collect();
        let diff: f64 = (0..n).map(|v| (next[v] - pr[v]).abs()).sum();
        pr = next;
        if tol > 0.0 && (diff - tol).abs() <= 1e-9 {
            near = true;
        }
        if diff < tol {
            break;
        }
    }
    (pr, near)
}

/// Synchronous LDBC CDLP: label₀(v) = id(v); each round every node takes the most frequent
/// label among its in- and out-neighbours (a reciprocal neighbour counts twice), smallest label
/// on ties, keeping its label when it has no neighbour. Also reports whether a tie occurred.
fn cdlp_reference(n: usize, ids: &[u64], edges: &[(usize, usize)], max_iterations: usize) -> (Vec<u64>, bool) {
    let mut nb: Vec<Vec<usize>> = vec![Vec::new(); n];
    for &(u, v) in edges {
        nb[u].push(v);
        nb[v].push(u);
    }
    let mut labels = ids.to_vec();
    let mut tie = false;
    for _ in 0..max_iterations {
        let mut next = labels.clone();
        for v in 0..n {
            let mut counts: BTreeMap<u64, usize> = BTreeMap::new();
            for &x in &nb[v] {
                *counts.entry(labels[x]).or_insert(0) += 1;
            }
            if let Some(best) = counts.values().max().cloned() {
                let cands: Vec<u64> = counts.iter().filter(|(_, c)| **c == best).map(|(l, _)| *l).collect();
                if cands.len() > 1 {
                    tie = true;
                }
                next[v] = cands[0]; // BTreeMap iterates in ascending label order
            }
        }
        if next == labels {
            break;
        }
        labels = next;
    }
    (labels, tie)
}

#[derive(Default)]
struct Info27 {
    dangling_node: bool,
    tie: bool,
    near_threshold_skips: u64,
    pr_runs: u64,
    cdlp_runs: u64,
}

struct Pools {
    p1: rayon::ThreadPool,
    p8: rayon::ThreadPool,
}

/// One case: every configured PageRank / CDLP run of one graph, under both pools, against the references.
fn c27_check(case: &Case27, pools: &Pools) -> Result<Info27, String> {
    let n = case.n;
    let ids = case.ids();
    let fe: Vec<(usize, usize, f64)> = case.edges.iter().map(|e| (e.0, e.1, 1.0)).collect();
    let view = make_view(n, &ids, &fe, false);
    let mut info = Info27::default();
    let mut outdeg = vec![0usize; n];
    for &(u, _) in &case.edges {
        outdeg[u] += 1;
    }
    info.dangling_node = outdeg.iter().any(|d| *d == 0);

    for cfg in &case.pr {
        let (d, it, tol) = (DAMPING[cfg.d as usize], ITERS[cfg.it as usize], TOLS[cfg.tol as usize]);
        let (want, near) = pr_reference(n, &case.edges, d, it, tol, cfg.dangling);
        if near {
            // the break decision would depend on rounding: skipped and counted
            info.near_threshold_skips += 1;
            continue;
        }
        for (threads, pool) in [(1, &pools.p1), (8, &pools.p8)] {
            let got = catch(|| pool.install(|| alg::page_rank(&view, alg::PageRankConfig { damping_factor: d, iterations: it, tolerance: tol, dangling_redistribution: cfg.dangling })))
                .map_err(|m| format!("page_rank panicked ({threads} threads, {cfg:?}): {m}"))?;
            info.pr_runs += 1;
            if got.len() != n {
                return Err(format!("page_rank returned {} scores for {n} nodes ({cfg:?})", got.len()));
            }
            let mut sum = 0.0;
            for i in 0..n {
                let g = *got.get(&ids[i]).ok_or_else(|| format!("page_rank: node index {i} (id {}) missing", ids[i]))?;
                let w = want[i];
                if !((g - w).abs() <= 1e-12 * g.abs().max(w.abs())) {
                    return Err(format!("page_rank node index {i}: {g:e}, LDBC iteration gives {w:e} (d={d}, iterations={it}, tolerance={tol}, dangling_redistribution={}, {threads} threads)", cfg.dangling));
                }
                sum += g;
            }
            if cfg.dangling && n > 0 && (sum - 1.0).abs() > 1e-9 {
                return Err(format!("page_rank with dangling redistribution: scores sum to {sum} (d={d}, iterations={it}, tolerance={tol}, {threads} threads)"));
            }
        }
    }

    for c in &case.cdlp {
        let max_it = CDLP_ITERS[*c as usize];
        let (want, tie) = cdlp_reference(n, &ids, &case.edges, max_it);
        info.tie |= tie;
        let mut per_pool: Vec<Vec<u64>> = Vec::new();
        for (threads, pool) in [(1, &pools.p1), (8, &pools.p8)] {
            let got = catch(|| pool.install(|| alg::cdlp(&view, &alg::CdlpConfig { max_iterations: max_it }))).map_err(|m| format!("cdlp panicked ({threads} threads, max_iterations={max_it}): {m}"))?;
            info.cdlp_runs += 1;
            if got.labels.len() != n {
                return Err(format!("cdlp returned {} labels for {n} nodes", got.labels.len()));
            }
            let mut v = Vec::with_capacity(n);
            for i in 0..n {
                let g = *got.labels.get(&ids[i]).ok_or_else(|| format!("cdlp: node index {i} (id {}) missing", ids[i]))?;
                if g != want[i] {
                    return Err(format!("cdlp(max_iterations={max_it}, {threads} threads): node index {i} (id {}) has label {g}, synchronous LDBC labelling gives {}", ids[i], want[i]));
                }
                v.push(g);
            }
            per_pool.push(v);
        }
        if per_pool[0] != per_pool[1] {
            return Err(format!("cdlp(max_iterations={max_it}) differs between 1 and 8 threads"));
        }
    }
    Ok(info)
}

/// (n selector, edges, id multiplier selector, id offset, pagerank configs, cdlp configs)
type Raw27 = (u16, Vec<(u16, u16)>, u16, u16, Vec<(u8, u8, u8, bool)>, Vec<u8>);

fn raw27_strategy(m_lo: usize, m_hi: usize, cfg_lo: usize, cfg_hi: usize) -> BoxedStrategy<Raw27> {
    (
        any::<u16>(),
        proptest::collection::vec((any::<u16>(), any::<u16>()), m_lo..=m_hi),
        any::<u16>(),
        any::<u16>(),
        proptest::collection::vec((0u8..3, 0u8..4, 0u8..3, any::<bool>()), cfg_lo..=cfg_hi),
        proptest::collection::vec(0u8..4, 1..=4),
    )
        .boxed()
}

fn build27(raw: &Raw27, n_lo: usize, n_hi: usize) -> Case27 {
    let (nsel, redges, msel, asel, prs, cds) = raw;
    let n = n_lo + pick_idx(*nsel, n_hi - n_lo + 1);
    let mut seen = BTreeSet::new();
    let mut edges = Vec::new();
    for (a, b) in redges {
        if n < 2 {
            break;
        }
        let u = pick_idx(*a, n);
        // target among the other n-1 nodes: no self-loops by construction
        let mut v = pick_idx(*b, n - 1);
        if v >= u {
            v += 1;
        }
        if seen.insert((u, v)) {
            edges.push((u, v));
        }
    }
    // smallest multiplier >= the selected one that is coprime to n
    let nn = n.max(1) as u64;
    let mut mul = 1 + pick_idx(*msel, n.max(1)) as u64;
    while gcd(mul, nn) != 1 {
        mul += 1;
    }
    let mut cd = cds.clone();
    cd.sort();
    cd.dedup();
    Case27 {
        n,
        edges,
        id_mul: mul,
        id_add: pick_idx(*asel, n.max(1)) as u64,
        pr: prs.iter().map(|(d, it, tol, dg)| PrCfg { d: *d, it: *it, tol: *tol, dangling: *dg }).collect(),
        cdlp: cd,
    }
}

fn all_pr_cfgs() -> Vec<PrCfg> {
    let mut v = Vec::new();
    for d in 0..3u8 {
        for it in 0..4u8 {
            for tol in 0..3u8 {
                for dangling in [false, true] {
                    v.push(PrCfg { d, it, tol, dangling });
                }
            }
        }
    }
    v
}

fn shrink27(case: Case27, fails: &dyn Fn(&Case27) -> bool) -> Case27 {
    let mut best = case;
    loop {
        let before = best.clone();
        for which in 0..3 {
            let base = best.clone();
            match which {
                0 => {
                    best.edges = shrink_vec(best.edges.clone(), &|c: &[(usize, usize)]| {
                        let mut x = base.clone();
                        x.edges = c.to_vec();
                        fails(&x)
                    })
                }
                1 => {
                    best.pr = shrink_vec(best.pr.clone(), &|c: &[PrCfg]| {
                        let mut x = base.clone();
                        x.pr = c.to_vec();
                        fails(&x)
                    })
                }
                _ => {
                    best.cdlp = shrink_vec(best.cdlp.clone(), &|c: &[u8]| {
                        let mut x = base.clone();
                        x.cdlp = c.to_vec();
                        fails(&x)
                    })
                }
            }
        }
        // drop the highest node while it is isolated (keeps ids a permutation only for the
        // identity mapping, so try that first); never cross the parallel threshold silently
        let mut c = best.clone();
        c.id_mul = 1;
        c.id_add = 0;
        if c != best && fails(&c) {
            best = c;
        }
        while best.n > 0 && best.id_mul == 1 && best.id_add == 0 && !best.edges.iter().any(|e| e.0 == best.n - 1 || e.1 == best.n - 1) {
            let mut c = best.clone();
            c.n -= 1;
            if fails(&c) {
                best = c;
            } else {
                break;
            }
        }
        if best == before {
            return best;
        }
    }
}

fn c27(args: &Args) {
    let mut ev = Evidence::new(
        args,
        "exploration",
        "simple digraphs: every one on <= 3 nodes under all 72 PageRank configurations (damping {0.5,0.85,1.0} x iterations {0,1,5,20} x tolerance {0,1e-4,1e3} x dangling redistribution on/off) and all CDLP max_iterations {0,1,3,100}, every one on 4 nodes under seed-keyed configurations, random graphs on 5-60 nodes, and graphs of 999 / 1000 / 1001 / 2500 nodes (both sides of the n >= 1000 rayon switch); each call under rayon pools of 1 and 8 threads, node ids a non-identity permutation of the indexes; judged against a sequential edge-wise re-implementation of the LDBC formulas (PageRank 1e-12 relative, sum 1 +- 1e-9 with redistribution; CDLP exact and equal across pools). Non-trivial = graph has a dangling node or a CDLP label tie occurred; distinct = distinct (graph, ids, configurations) cases.",
    );
    ev.assume("a PageRank configuration is skipped (and counted under near_threshold_skips) when some round's total change is within 1e-9 of a positive tolerance: the stop decision would depend on rounding");
    ev.assume("graphs have no self-loops and no parallel edges (LDBC Graphalytics inputs)");
    ev.set("parallel_threshold_in_code", json!(PAR_THRESHOLD));
    let pools = Pools { p1: rayon::ThreadPoolBuilder::new().num_threads(1).build().unwrap(), p8: rayon::ThreadPoolBuilder::new().num_threads(8).build().unwrap() };

    if let Some(p) = &args.replay {
        let case: Case27 = serde_json::from_value(load_replay(p)).unwrap_or_else(|e| {
            eprintln!("replay case does not parse: {e}");
            std::process::exit(2)
        });
        if !case.valid() {
            eprintln!("replay case is not a valid C27 case");
            std::process::exit(2);
        }
        ev.case();
        match catch(|| c27_check(&case, &pools)) {
            Ok(Ok(_)) => println!("replay: property held"),
            Ok(Err(m)) | Err(m) => {
                report_violation(&mut ev, &json!(case), &m);
            }
        }
        ev.nontrivial(&case);
        ev.nontrivial(&"replay");
        if case.edges.len() <= 40 {
            ev.sample(json!(case));
        }
        finish(&ev);
    }

    let mut failure: Option<(Case27, String)> = None;
    let totals = RefCell::new((0u64, 0u64, 0u64)); // pr runs, cdlp runs, near-threshold skips
    let record = |ev: &mut Evidence, case: &Case27, info: &Info27, class: &str| {
        ev.class(class);
        {
            let mut t = totals.borrow_mut();
            if !ev.frozen {
                t.0 += info.pr_runs;
                t.1 += info.cdlp_runs;
                t.2 += info.near_threshold_skips;
            }
        }
        if info.dangling_node {
            ev.class("has_dangling_node");
        }
        if info.tie {
            ev.class("cdlp_tie");
        }
        if info.near_threshold_skips > 0 {
            ev.class("near_threshold_skip");
        }
        if case.n >= PAR_THRESHOLD {
            ev.class("parallel_path");
        }
        if info.dangling_node || info.tie {
            ev.nontrivial(case);
            ev.class("nontrivial");
            if ev.want_sample() && case.n >= 4 && case.edges.len() >= 4 && case.edges.len() <= 12 && info.tie && info.dangling_node {
                ev.sample(json!(case));
            }
        }
    };

    for (p, v) in corpus_cases("C27") {
        let case: Case27 = match serde_json::from_value(v) {
            Ok(c) => c,
            Err(e) => {
                eprintln!("corpus file {} skipped: {e}", p.display());
                ev.class("corpus_unreadable");
                continue;
            }
        };
        if !case.valid() {
            eprintln!("corpus file {} skipped: not a valid case", p.display());
            ev.class("corpus_unreadable");
            continue;
        }
        ev.case();
        match catch(|| c27_check(&case, &pools)) {
            Ok(Ok(i)) => record(&mut ev, &case, &i, "corpus"),
            Ok(Err(m)) | Err(m) => {
                report_violation(&mut ev, &json!(case), &format!("{m} (corpus {})", p.display()));
                finish(&ev);
            }
        }
    }

    // bounded-exhaustive: loop-free simple digraphs on 0..=4 nodes
    let all_cfgs = all_pr_cfgs();
    'exh: for n in 0..=4usize {
        let pairs: Vec<(usize, usize)> = (0..n).flat_map(|u| (0..n).filter(move |v| *v != u).map(move |v| (u, v))).collect();
        for mask in 0u32..(1u32 << pairs.len()) {
            let edges: Vec<(usize, usize)> = pairs.iter().enumerate().filter(|(k, _)| mask & (1 << k) != 0).map(|(_, e)| *e).collect();
            let h = fnv(&(args.seed, n, mask));
            let pr: Vec<PrCfg> = if n <= 3 { all_cfgs.clone() } else { (0..args.tier.pick(8, 36)).map(|k| all_cfgs[(fnv(&(h, k)) % 72) as usize]).collect() };
            let nn = n.max(1) as u64;
            let mut mul = 1 + (h >> 8) % nn;
            while gcd(mul, nn) != 1 {
                mul += 1;
            }
            let case = Case27 { n, edges, id_mul: mul, id_add: (h >> 16) % nn, pr, cdlp: vec![0, 1, 2, 3] };
            ev.case();
            match catch(|| c27_check(&case, &pools)) {
                Ok(Ok(i)) => record(&mut ev, &case, &i, if n <= 3 { "exhaustive_n<=3" } else { "exhaustive_n4" }),
                Ok(Err(m)) | Err(m) => {
                    ev.frozen = true;
                    failure = Some((case, m));
                    break 'exh;
                }
            }
        }
    }
    ev.exhaustive = Some(failure.is_none());
    ev.set("exhaustive_bound", json!({"loop_free_simple_digraphs_on_nodes": "0..=4", "n<=3": "all 72 PageRank configurations x 4 CDLP", "n=4": "seed-keyed PageRank configurations x 4 CDLP"}));

    // random small graphs, then the sizes around the parallel switch
    if failure.is_none() {
        let mut plan: Vec<(&str, usize, usize, usize, usize, usize, usize, u32)> = vec![("random_small", 5, 60, 0, 240, 1, 3, args.tier.pick(3000, 200_000))];
        for size in [999usize, 1000, 1001, 2500] {
            plan.push(("large", size, size, size / 2, size * 4, 6, 6, args.tier.pick(5, 150)));
        }
        for (k, (class, n_lo, n_hi, m_lo, m_hi, c_lo, c_hi, cases)) in plan.iter().enumerate() {
            let strat = raw27_strategy(*m_lo, *m_hi, *c_lo, *c_hi);
            let evc = RefCell::new(&mut ev);
            let res = search(args.seed.wrapping_add(100 + k as u64), *cases, &strat, |raw| {
                let mut case = build27(raw, *n_lo, *n_hi);
                if *class == "large" {
                    case.cdlp = vec![0, 1, 2, 3];
                }
                let mut e = evc.borrow_mut();
                e.case();
                match catch(|| c27_check(&case, &pools)) {
                    Ok(Ok(i)) => {
                        let cl = if *class == "large" { format!("n={}", case.n) } else { class.to_string() };
                        record(&mut **e, &case, &i, &cl);
                        Ok(())
                    }
                    Ok(Err(m)) | Err(m) => {
                        e.frozen = true;
                        Err(m)
                    }
                }
            });
            drop(evc);
            if let Some((raw, msg)) = res {
                let mut case = build27(&raw, *n_lo, *n_hi);
                if *class == "large" {
                    case.cdlp = vec![0, 1, 2, 3];
                }
                failure = Some((case, msg));
                break;
            }
        }
    }
    {
        let t = totals.borrow();
        ev.set("page_rank_calls", json!(t.0));
        ev.set("cdlp_calls", json!(t.1));
        ev.set("near_threshold_skips", json!(t.2));
    }

    if let Some((case, msg)) = failure {
        ev.frozen = true;
        let fails = |c: &Case27| c.valid() && !matches!(catch(|| c27_check(c, &pools)), Ok(Ok(_)));
        let min = shrink27(case, &fails);
        let msg2 = match catch(|| c27_check(&min, &pools)) {
            Ok(Err(m)) | Err(m) => m,
            _ => msg,
        };
        report_violation(&mut ev, &json!(min), &msg2);
    }
    finish(&ev);
}
