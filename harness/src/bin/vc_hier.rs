//! C28 — hierarchy index (OEH) answers equal brute-force poset answers (DESIGN §4).
//!
//! Three layers, one check:
//!  1. index level  — `OehIndex` (probe's choice + every forced encoding) vs an own brute force
//!                    over the covering relation, with `update_measure` sequences;
//!  2. store level  — Cypher writes → `HierarchyIndexManager` hooks: measure writes keep
//!                    roll-ups current, covering-edge writes make the entry unusable until REBUILD;
//!  3. planner level — rewritable query shapes on twin stores with / without the index.
use proptest::prelude::*;
use samyama::graph::{GraphStore, NodeId, PropertyValue};
use samyama::index::hierarchy::{Encoding, HierarchyError, OehIndex, Poset, RollupOp, RollupValue};
use samyama::query::executor::hierarchy_detector::{self, HierarchyRewrite};
use samyama::query::{parse_query, QueryEngine, Value as QValue};
use serde::{Deserialize, Serialize};
use serde_json::json;
use std::collections::{BTreeMap, BTreeSet};
use vcheck::*;

fn main() {
    let args = parse_args();
    quiet_panics();
    start_watchdog(args.tier.pick(900, 3600));
    match args.prop.as_str() {
        "C28" => c28(&args),
        p => {
            eprintln!("vc_hier does not serve {p}");
            std::process::exit(2)
        }
    }
}

// =======================================================================================
// shared: measures, numeric comparison, brute-force oracle

/// A measure value. Floats are dyadic (k/8) and small, so every sum is exact in f64 and the
/// oracle can work in integer units of 1/8.
#[derive(Clone, Copy, Debug, Serialize, Deserialize, PartialEq)]
enum Mv {
    I(i64),
    F(f64),
    /// non-numeric property values (store / planner level only)
    B(bool),
    /// the string 't<k>'
    T(u8),
}

impl Mv {
    fn scaled(&self) -> i128 {
        match self {
            Mv::I(v) => *v as i128 * 8,
            Mv::F(f) => (*f * 8.0) as i128,
            Mv::B(b) => *b as i128 * 8,
            Mv::T(_) => 0,
        }
    }
    fn rollup(&self) -> RollupValue {
        match self {
            Mv::I(v) => RollupValue::Int(*v as i128),
            Mv::F(f) => RollupValue::Float(*f),
            Mv::B(b) => RollupValue::Int(*b as i128),
            Mv::T(_) => RollupValue::Null,
        }
    }
    fn literal(&self) -> String {
        match self {
            Mv::I(v) => format!("{v}"),
            Mv::F(f) => format!("{f:?}"),
            Mv::B(b) => format!("{b}"),
            Mv::T(k) => format!("'t{k}'"),
        }
    }
    fn is_float(&self) -> bool {
        matches!(self, Mv::F(_))
    }
    fn as_f64(&self) -> f64 {
        match self {
            Mv::I(v) => *v as f64,
            Mv::F(f) => *f,
            Mv::B(b) => *b as i64 as f64,
            Mv::T(_) => 0.0,
        }
    }
    fn numeric(&self) -> bool {
        matches!(self, Mv::I(_) | Mv::F(_))
    }
    /// the value as a numeric measure: what an aggregation over numbers sees
    fn strict_num(self) -> Option<Mv> {
        if self.numeric() {
            Some(self)
        } else {
            None
        }
    }
    /// what the index stores for it (manager::to_rollup_value); booleans become 0/1 only
    /// under KF-C28-6
    fn index_norm(self, kf: &Kf) -> Option<Mv> {
        match self {
            Mv::B(b) if kf.nonnumeric => Some(Mv::I(b as i64)),
            other => other.strict_num(),
        }
    }
}

fn f64_scaled(f: f64) -> Result<i128, String> {
    let s = f * 8.0;
    if !s.is_finite() || s.fract() != 0.0 || s.abs() >= 9.0e15 {
        return Err(format!("float {f:?} is not an exactly representable dyadic sum"));
    }
    Ok(s as i128)
}

/// numeric view of a roll-up value in units of 1/8 (None = NULL). The *type* (Int vs Float)
/// of a numerically equal answer is not asserted.
fn rv_scaled(v: &RollupValue) -> Result<Option<i128>, String> {
    match v {
        RollupValue::Int(x) => x.checked_mul(8).map(Some).ok_or_else(|| "i128 overflow".to_string()),
        RollupValue::Float(f) => f64_scaled(*f).map(Some),
        RollupValue::Null => Ok(None),
    }
}

#[derive(Clone)]
struct Bits(Vec<u64>);
impl Bits {
    fn new(n: usize) -> Bits {
        Bits(vec![0; (n + 63) / 64])
    }
    fn set(&mut self, i: usize) {
        self.0[i / 64] |= 1 << (i % 64);
    }
    fn has(&self, i: usize) -> bool {
        self.0[i / 64] & (1 << (i % 64)) != 0
    }
    fn or(&mut self, o: &Bits) {
        for (a, b) in self.0.iter_mut().zip(o.0.iter()) {
            *a |= *b;
        }
    }
}

/// Brute force over the covering relation (child, parent): reflexive-transitive ancestors
/// as bit sets, descendant lists, minimal common ancestors.
struct Oracle {
    n: usize,
    parents: Vec<Vec<usize>>,
    anc: Vec<Bits>,
    desc: Vec<Vec<usize>>,
}

impl Oracle {
    /// Err when the relation has a cycle (self-loops included) or an index is out of range.
    fn new(n: usize, edges: &[(usize, usize)]) -> Result<Oracle, String> {
        let mut parents: Vec<Vec<usize>> = vec![Vec::new(); n];
        let mut children: Vec<Vec<usize>> = vec![Vec::new(); n];
        for &(c, p) in edges {
            if c >= n || p >= n {
                return Err("edge endpoint out of range".into());
            }
            if c == p {
                return Err("self loop".into());
            }
            if !parents[c].contains(&p) {
                parents[c].push(p);
                children[p].push(c);
            }
        }
        // parents-before-children order (Kahn from the roots)
        let mut need: Vec<usize> = parents.iter().map(|p| p.len()).collect();
        let mut order: Vec<usize> = (0..n).filter(|&i| need[i] == 0).collect();
        let mut head = 0;
        while head < order.len() {
            let u = order[head];
            head += 1;
            for &c in &children[u] {
                need[c] -= 1;
                if need[c] == 0 {
                    order.push(c);
                }
            }
        }
        if order.len() != n {
            return Err("covering relation is cyclic".into());
        }
        let mut anc: Vec<Bits> = vec![Bits::new(n); n];
        for &u in &order {
            let mut b = Bits::new(n);
            b.set(u);
            for &p in &parents[u] {
                let pb = anc[p].clone();
                b.or(&pb);
            }
            anc[u] = b;
        }
        let mut desc: Vec<Vec<usize>> = vec![Vec::new(); n];
        for x in 0..n {
            for y in 0..n {
                if anc[x].has(y) {
                    desc[y].push(x);
                }
            }
        }
        Ok(Oracle { n, parents, anc, desc })
    }
    /// x ⊑ y (reflexive)
    fn sub(&self, x: usize, y: usize) -> bool {
        self.anc[x].has(y)
    }
    fn multi_parent(&self) -> bool {
        self.parents.iter().any(|p| p.len() >= 2)
    }
    fn is_tree(&self) -> bool {
        !self.multi_parent()
    }
    fn extra_parents(&self) -> usize {
        self.parents.iter().map(|p| p.len().saturating_sub(1)).sum()
    }
    /// minimal elements of anc(x) ∩ anc(y) (reflexive ancestor sets), ascending
    fn lca(&self, x: usize, y: usize) -> Vec<usize> {
        let common: Vec<usize> = (0..self.n).filter(|&c| self.anc[x].has(c) && self.anc[y].has(c)).collect();
        common.iter().copied().filter(|&c| !common.iter().any(|&d| d != c && self.anc[d].has(c))).collect()
    }
}

#[derive(Clone, Copy, PartialEq, Eq, Debug)]
enum Op {
    Sum,
    Min,
    Max,
    Count,
}
const ALL_OPS: [Op; 4] = [Op::Sum, Op::Min, Op::Max, Op::Count];
impl Op {
    fn name(self) -> &'static str {
        match self {
            Op::Sum => "sum",
            Op::Min => "min",
            Op::Max => "max",
            Op::Count => "count",
        }
    }
    fn parse(s: &str) -> Option<Op> {
        ALL_OPS.iter().copied().find(|o| o.name() == s)
    }
    fn repo(self) -> RollupOp {
        match self {
            Op::Sum => RollupOp::Sum,
            Op::Min => RollupOp::Min,
            Op::Max => RollupOp::Max,
            Op::Count => RollupOp::Count,
        }
    }
}

/// fold the measure over a node set, each node once; units of 1/8; None = NULL
fn fold(nodes: &[usize], m: &dyn Fn(usize) -> Option<i128>, op: Op) -> Option<i128> {
    match op {
        Op::Count => Some(nodes.len() as i128 * 8),
        Op::Sum => Some(nodes.iter().filter_map(|&z| m(z)).sum()),
        Op::Min => nodes.iter().filter_map(|&z| m(z)).min(),
        Op::Max => nodes.iter().filter_map(|&z| m(z)).max(),
    }
}

#[derive(Default)]
struct Info {
    classes: BTreeMap<String, u64>,
    nontrivial: bool,
    refusals: u64,
    kf: Vec<&'static str>,
}
impl Info {
    fn class(&mut self, s: &str) {
        *self.classes.entry(s.to_string()).or_insert(0) += 1;
    }
}

/// which known-finding matchers are enabled (listed open + witness still fails)
#[derive(Clone, Copy, Default, Debug)]
struct Kf {
    /// KF-C28-1: REMOVE n.<measure> is not propagated to the index
    remove_prop: bool,
    /// KF-C28-2: float delta truncated when added to an integer Fenwick tree
    fenwick_trunc: bool,
    /// KF-C28-3: the roll-up rewrite ignores the label restriction of the declared measure
    measure_label_rewrite: bool,
    /// KF-C28-5: HierarchyIndexManager::update_measure ignores the label restriction
    measure_label_update: bool,
    /// KF-C28-4: roll-up / descendant-scan rewrite ignores a reverse-declared orientation
    reverse_rewrite: bool,
    /// KF-C28-6: non-numeric measure values (booleans as 0/1 in the index; min/max rewrite
    /// drops values that Cypher min/max would order)
    nonnumeric: bool,
}

// =======================================================================================
// layer 1: index level

#[derive(Clone, Debug, Serialize, Deserialize)]
struct IndexCase {
    tag: String,
    /// node i has NodeId(ids[i]); nodes are interned in this order, so dense index == i
    ids: Vec<u64>,
    /// covering relation (child, parent) in insertion order
    edges: Vec<(usize, usize)>,
    measure: Vec<Option<Mv>>,
    /// monoids handed to set_measure (names)
    ops: Vec<String>,
    updates: Vec<(usize, Option<Mv>)>,
    /// selectors for sampled pairs / roots on large posets
    probes: Vec<u16>,
}

#[derive(Clone, Copy, PartialEq, Eq, Debug)]
enum Variant {
    Auto,
    Forced(Encoding),
}

fn index_case_valid(c: &IndexCase) -> Result<Oracle, String> {
    let n = c.ids.len();
    if c.measure.len() != n {
        return Err("measure length".into());
    }
    let set: BTreeSet<u64> = c.ids.iter().copied().collect();
    if set.len() != n {
        return Err("duplicate ids".into());
    }
    if c.updates.iter().any(|u| u.0 >= n) {
        return Err("update node out of range".into());
    }
    if c.ops.iter().any(|o| Op::parse(o).is_none()) {
        return Err("unknown op".into());
    }
    Oracle::new(n, &c.edges)
}

fn sample_pairs(c: &IndexCase, orc: &Oracle, all_below: usize, count: usize) -> Vec<(usize, usize)> {
    let n = orc.n;
    let mut out = Vec::new();
    if n == 0 {
        return out;
    }
    if n <= all_below {
        for x in 0..n {
            for y in 0..n {
                out.push((x, y));
            }
        }
        return out;
    }
    let l = c.probes.len().max(1);
    let pr = |i: usize| -> usize { *c.probes.get(i % l).unwrap_or(&0) as usize };
    for k in 0..count {
        let x = (pr(k) * 31 + k * 7919) % n;
        let y = (pr(k * 3 + 1) * 17 + k * 104729) % n;
        out.push((x, y));
        // a positive pair: y drawn from the ancestors of x
        let ancs: Vec<usize> = (0..n).filter(|&a| orc.anc[x].has(a)).collect();
        out.push((x, ancs[(pr(k + 7) + k) % ancs.len()]));
        // and two nodes below a common node (interesting for LCA)
        let d = &orc.desc[y];
        out.push((d[(pr(k + 11) + k) % d.len()], d[(pr(k + 13) * 7 + k) % d.len()]));
    }
    out
}

fn check_index(c: &IndexCase, kf: &Kf) -> Result<Info, String> {
    let mut info = Info::default();
    let orc = index_case_valid(c).map_err(|e| format!("malformed index case: {e}"))?;
    let n = orc.n;
    let ids: Vec<NodeId> = c.ids.iter().map(|&i| NodeId(i)).collect();
    let edges: Vec<(NodeId, NodeId)> = c.edges.iter().map(|&(ch, p)| (ids[ch], ids[p])).collect();
    let poset = match catch(|| Poset::from_edges(edges.clone(), ids.clone()))? {
        Ok(p) => p,
        Err(e) => return Err(format!("Poset::from_edges refused an acyclic covering relation: {e}")),
    };
    if poset.n() != n {
        return Err(format!("poset has {} nodes, expected {n}", poset.n()));
    }
    for i in 0..n {
        if poset.idx(ids[i]) != Some(i as u32) || poset.node_at(i as u32) != ids[i] {
            return Err(format!("dense index of node {i} is {:?}", poset.idx(ids[i])));
        }
        let mut got: Vec<usize> = poset.parents(i as u32).iter().map(|&p| p as usize).collect();
        got.sort();
        let mut want = orc.parents[i].clone();
        want.sort();
        if got != want {
            return Err(format!("poset.parents({i}) = {got:?}, covering relation says {want:?}"));
        }
    }
    if poset.is_tree() != orc.is_tree() {
        return Err(format!("poset.is_tree() = {}, brute force {}", poset.is_tree(), orc.is_tree()));
    }
    info.nontrivial = orc.multi_parent() || !c.updates.is_empty();
    info.class(if orc.multi_parent() { "index:multi_parent" } else { "index:tree_or_forest" });
    if !c.updates.is_empty() {
        info.class("index:with_updates");
    }
    let pairs = sample_pairs(c, &orc, 40, 500);
    let lca_pairs = sample_pairs(c, &orc, 16, 50);
    for var in [Variant::Auto, Variant::Forced(Encoding::NestedSet), Variant::Forced(Encoding::NearTree), Variant::Forced(Encoding::Chain)] {
        if var == Variant::Forced(Encoding::NearTree) && n > 48 && orc.extra_parents() > 24 {
            info.class("index:skip_forced_neartree_budget");
            continue;
        }
        let p2 = poset.clone();
        let built = catch(move || match var {
            Variant::Auto => OehIndex::build(p2),
            Variant::Forced(e) => OehIndex::build_forced(p2, e),
        })
        .map_err(|m| format!("[{var:?}] build panicked: {m}"))?;
        let idx = match built {
            Err(HierarchyError::NotATree) if var == Variant::Forced(Encoding::NestedSet) && !orc.is_tree() => {
                info.class("index:nestedset_rejects_nontree");
                continue;
            }
            Err(HierarchyError::WidthTooHigh { .. }) if var == Variant::Auto && n > 100 => {
                info.refusals += 1;
                info.class("index:declined_width");
                continue;
            }
            Err(e) => return Err(format!("[{var:?}] build refused: {e}")),
            Ok(i) => i,
        };
        if var == Variant::Forced(Encoding::NestedSet) && !orc.is_tree() {
            return Err("build_forced(NestedSet) accepted a poset with a multi-parent node".into());
        }
        if var == Variant::Auto && orc.is_tree() && idx.encoding() != Encoding::NestedSet {
            return Err(format!("probe chose {:?} for a tree", idx.encoding()));
        }
        if let Variant::Forced(e) = var {
            if idx.encoding() != e {
                return Err(format!("build_forced({e:?}) produced {:?}", idx.encoding()));
            }
        }
        info.class(&format!("index:enc:{}:{}", if var == Variant::Auto { "auto" } else { "forced" }, idx.encoding().name()));
        run_variant(c, &orc, idx, var, &pairs, &lca_pairs, kf, &mut info)?;
    }
    Ok(info)
}

/// how the code's SUM structure may deviate under an enabled known finding
struct FenwickQuirk {
    /// per-node integer contribution the (integer) Fenwick tree holds
    contrib: Vec<i128>,
}

fn run_variant(c: &IndexCase, orc: &Oracle, mut idx: OehIndex, var: Variant, pairs: &[(usize, usize)], lca_pairs: &[(usize, usize)], kf: &Kf, info: &mut Info) -> Result<(), String> {
    let n = orc.n;
    let enc = idx.encoding();
    let tagv = format!("[{var:?}→{}]", enc.name());
    // ---- order structure
    let idxr = &idx;
    catch(|| -> Result<(), String> {
        for &(x, y) in pairs {
            let got = idxr.subsumes(x as u32, y as u32);
            if got != orc.sub(x, y) {
                return Err(format!("{tagv} subsumes({x},{y}) = {got}, brute force {}", orc.sub(x, y)));
            }
        }
        let roots: Vec<usize> = if n <= 64 { (0..n).collect() } else { pairs.iter().take(64).map(|p| p.1).collect() };
        for &y in &roots {
            let mut got: Vec<usize> = idxr.descendants(y as u32).into_iter().map(|v| v as usize).collect();
            let len = got.len();
            got.sort();
            got.dedup();
            if got.len() != len {
                return Err(format!("{tagv} descendants({y}) lists a node twice"));
            }
            if got != orc.desc[y] {
                return Err(format!("{tagv} descendants({y}) = {got:?}, brute force {:?}", orc.desc[y]));
            }
            if idxr.descendant_count(y as u32) != orc.desc[y].len() {
                return Err(format!("{tagv} descendant_count({y}) = {}, brute force {}", idxr.descendant_count(y as u32), orc.desc[y].len()));
            }
        }
        for &(x, y) in lca_pairs {
            let mut got: Vec<usize> = idxr.lowest_common_ancestors(x as u32, y as u32).into_iter().map(|v| v as usize).collect();
            got.sort();
            let want = orc.lca(x, y);
            if got != want {
                return Err(format!("{tagv} lowest_common_ancestors({x},{y}) = {got:?}, minimal common ancestors {want:?}"));
            }
        }
        Ok(())
    })
    .map_err(|m| format!("{tagv} panic in order queries: {m}"))??;
    if n > 0 {
        let (x, y) = (c.ids[0], c.ids[n - 1]);
        if idx.subsumes_ids(NodeId(x), NodeId(y)) != Some(orc.sub(0, n - 1)) {
            return Err(format!("{tagv} subsumes_ids disagrees with subsumes"));
        }
    }
    // ---- roll-ups
    let built: Vec<Op> = c.ops.iter().filter_map(|o| Op::parse(o)).collect();
    let repo_ops: Vec<RollupOp> = built.iter().map(|o| o.repo()).collect();
    let mut cur: Vec<Option<Mv>> = c.measure.clone();
    let rv: Vec<Option<RollupValue>> = cur.iter().map(|m| m.map(|v| v.rollup())).collect();
    catch(|| idx.set_measure(rv, &repo_ops)).map_err(|m| format!("{tagv} set_measure panicked: {m}"))?;
    // integer Fenwick tree: nested-set, SUM built, no float at build time (KF-C28-2 region)
    let mut quirk: Option<FenwickQuirk> = if enc == Encoding::NestedSet && built.contains(&Op::Sum) && !cur.iter().flatten().any(|m| m.is_float()) {
        Some(FenwickQuirk { contrib: cur.iter().map(|m| m.map(|v| v.scaled() / 8).unwrap_or(0)).collect() })
    } else {
        None
    };
    let mut quirk_diverged = false;
    let all_roots: Vec<usize> = if n <= 64 { (0..n).collect() } else { pairs.iter().take(48).map(|p| p.1).collect() };
    let check_rollups = |idx: &OehIndex, cur: &[Option<Mv>], quirk: &Option<FenwickQuirk>, roots: &[usize], step: &str| -> Result<bool, String> {
        let mut used_kf = false;
        for &y in roots {
            for op in ALL_OPS {
                let got = catch(|| idx.rollup(y as u32, op.repo())).map_err(|m| format!("{tagv} {step} rollup({y},{}) panicked: {m}", op.name()))?;
                let available = op == Op::Count || built.contains(&op);
                if idx.has_rollup(op.repo()) != available {
                    return Err(format!("{tagv} has_rollup({}) = {}, built ops {:?}", op.name(), !available, c.ops));
                }
                match (got, available) {
                    (None, false) => continue,
                    (Some(v), false) => return Err(format!("{tagv} {step} rollup({y},{}) = {v:?} although no structure was built", op.name())),
                    (None, true) => return Err(format!("{tagv} {step} rollup({y},{}) = None although the structure was built", op.name())),
                    (Some(v), true) => {
                        if op == Op::Count && v != RollupValue::Int(orc.desc[y].len() as i128) {
                            return Err(format!("{tagv} {step} rollup({y},count) = {v:?}, brute force {}", orc.desc[y].len()));
                        }
                        let want = fold(&orc.desc[y], &|z| cur[z].map(|m| m.scaled()), op);
                        let gots = rv_scaled(&v);
                        if gots.as_ref().ok() == Some(&want) {
                            continue;
                        }
                        // known finding: float delta truncated into an integer Fenwick tree
                        if op == Op::Sum && kf.fenwick_trunc {
                            if let Some(q) = quirk {
                                let qwant: i128 = orc.desc[y].iter().map(|&z| q.contrib[z]).sum::<i128>() * 8;
                                if gots.as_ref().ok() == Some(&Some(qwant)) {
                                    used_kf = true;
                                    continue;
                                }
                            }
                        }
                        return Err(format!(
                            "{tagv} {step} rollup({y},{}) = {v:?}, brute force over the descendant set {:?} gives {}",
                            op.name(),
                            orc.desc[y],
                            match want {
                                Some(w) => format!("{}", w as f64 / 8.0),
                                None => "NULL".into(),
                            }
                        ));
                    }
                }
            }
        }
        Ok(used_kf)
    };
    if check_rollups(&idx, &cur, &quirk, &all_roots, "after set_measure")? {
        return Err(format!("{tagv} internal: quirk matched before any update"));
    }
    for (step, &(v, val)) in c.updates.iter().enumerate() {
        let ok = catch(|| idx.update_measure(NodeId(c.ids[v]), val.map(|m| m.rollup()))).map_err(|m| format!("{tagv} update_measure panicked at step {step}: {m}"))?;
        if !ok {
            return Err(format!("{tagv} update_measure(node {v}) returned false for a node of the hierarchy"));
        }
        if let Some(q) = quirk.as_mut() {
            // the code's delta rule: exact for int→int / absent, otherwise (new − old) as f64 truncated
            let old = cur[v];
            let delta: i128 = match (val, old) {
                (Some(Mv::I(a)), Some(Mv::I(b))) => a as i128 - b as i128,
                (Some(Mv::I(a)), None) => a as i128,
                (None, Some(Mv::I(b))) => -(b as i128),
                (a, b) => {
                    quirk_diverged = true;
                    (a.map(|m| m.as_f64()).unwrap_or(0.0) - b.map(|m| m.as_f64()).unwrap_or(0.0)) as i128
                }
            };
            q.contrib[v] += delta;
        }
        cur[v] = val;
        // roots whose answer can change: the ancestors of v; plus the standing sample
        let mut roots: Vec<usize> = (0..n).filter(|&a| orc.anc[v].has(a)).collect();
        if n <= 64 {
            roots = (0..n).collect();
        } else {
            roots.extend(all_roots.iter().copied().take(16));
        }
        let used = check_rollups(&idx, &cur, &quirk, &roots, &format!("after update #{step} (node {v} := {val:?})"))?;
        if used {
            if !quirk_diverged {
                return Err(format!("{tagv} internal: quirk answer accepted without a float delta"));
            }
            info.kf.push("KF-C28-2");
        }
    }
    if n > 0 {
        let unknown = (0..u64::MAX).find(|i| !c.ids.contains(i)).unwrap();
        if catch(|| idx.update_measure(NodeId(unknown), Some(RollupValue::Int(1)))).map_err(|m| format!("{tagv} update_measure(unknown) panicked: {m}"))? {
            return Err(format!("{tagv} update_measure accepted a node outside the hierarchy"));
        }
    }
    Ok(())
}

// ---- generators (index level)

struct Sel<'a> {
    v: &'a [u16],
    i: usize,
}
impl<'a> Sel<'a> {
    fn new(v: &'a [u16]) -> Self {
        Sel { v, i: 0 }
    }
    fn next(&mut self) -> u16 {
        let l = self.v.len().max(1);
        let x = self.v.get(self.i % l).copied().unwrap_or(0).wrapping_add(((self.i / l) as u16).wrapping_mul(40503));
        self.i += 1;
        x
    }
    fn below(&mut self, n: usize) -> usize {
        pick_idx(self.next(), n.max(1))
    }
    fn chance(&mut self, num: usize, den: usize) -> bool {
        self.below(den) < num
    }
}

const INT_BOUNDARY: [i64; 12] = [0, 1, -1, i64::MAX, i64::MIN, i64::MAX - 1, i64::MIN + 1, 1 << 53, (1 << 53) + 1, -(1 << 53) - 1, 1 << 62, -(1 << 62)];

fn gen_mv(s: &mut Sel, fam: usize) -> Mv {
    match fam {
        0 => Mv::I(s.below(41) as i64 - 20),
        1 => {
            if s.chance(2, 3) {
                Mv::I(INT_BOUNDARY[s.below(INT_BOUNDARY.len())])
            } else {
                Mv::I(s.below(2001) as i64 - 1000)
            }
        }
        2 => Mv::F((s.below(801) as f64 - 400.0) / 8.0),
        _ => {
            if s.chance(1, 2) {
                Mv::I(s.below(41) as i64 - 20)
            } else {
                Mv::F((s.below(801) as f64 - 400.0) / 8.0)
            }
        }
    }
}

/// topological construction: parents always have a smaller label; returns (child,parent) pairs
fn gen_shape(s: &mut Sel, kind: usize, n: usize) -> (Vec<(usize, usize)>, &'static str) {
    let mut e: Vec<(usize, usize)> = Vec::new();
    match kind {
        0 => {
            // random recursive tree / forest
            let forest = s.chance(1, 3);
            for i in 1..n {
                if forest && s.chance(1, 6) {
                    continue;
                }
                e.push((i, s.below(i)));
            }
            (e, "tree")
        }
        1 => {
            // deep tree: parent among the last two
            for i in 1..n {
                e.push((i, i - 1 - s.below(2.min(i))));
            }
            (e, "deep_tree")
        }
        2 => {
            // broom: a short handle and many leaves
            let handle = 1 + s.below(3.min(n.max(1)));
            for i in 1..n {
                e.push((i, if i < handle { i - 1 } else { s.below(handle) }));
            }
            (e, "broom")
        }
        3 => {
            // near-tree: a tree plus a few extra parent edges (kept acyclic: parent label < child)
            for i in 1..n {
                e.push((i, s.below(i)));
            }
            let extra = 1 + s.below(if n >= 40 { (n / 20).max(1) + 1 } else { 3 });
            for _ in 0..extra {
                if n >= 3 {
                    let c = 2 + s.below(n - 2);
                    let p = s.below(c);
                    if !e.contains(&(c, p)) {
                        e.push((c, p));
                    }
                }
            }
            (e, "near_tree")
        }
        4 => {
            // layered low-width DAG
            let w = 1 + s.below(4);
            for i in w..n {
                let layer_start = (i / w) * w;
                let np = 1 + s.below(3);
                for _ in 0..np {
                    let far = layer_start >= 2 * w && s.chance(1, 4);
                    let back = 1 + s.below(if far { 2 } else { 1 });
                    let p = layer_start - back * w + s.below(w);
                    if !e.contains(&(i, p)) {
                        e.push((i, p));
                    }
                }
            }
            (e, "layered_dag")
        }
        5 => {
            // random DAG, transitive edges welcome
            let dens = 1 + s.below(4); // expected parents per node
            for i in 1..n {
                for _ in 0..dens {
                    if s.chance(2, 3) {
                        let p = s.below(i);
                        if !e.contains(&(i, p)) {
                            e.push((i, p));
                        }
                    }
                }
            }
            (e, "random_dag")
        }
        _ => {
            // ladder of diamonds: 0 <- {1,2} <- 3 <- {4,5} <- 6 ...
            let mut i = 0;
            while i + 3 < n {
                e.push((i + 1, i));
                e.push((i + 2, i));
                e.push((i + 3, i + 1));
                e.push((i + 3, i + 2));
                i += 3;
            }
            for j in (i + 1)..n {
                e.push((j, s.below(j)));
            }
            (e, "diamond_ladder")
        }
    }
}

fn gen_index_case(kind: u8, size_class: u8, sels: &[u16]) -> IndexCase {
    let mut s = Sel::new(sels);
    let n = match size_class {
        0 => 1 + s.below(9),
        1 => 10 + s.below(31),
        2 => 41 + s.below(80),
        _ => 200 + s.below(201),
    };
    let (topo_edges, shape) = gen_shape(&mut s, kind as usize % 7, n);
    // relabel: position of topological label t is perm[t]
    let mut perm: Vec<usize> = (0..n).collect();
    for i in (1..n).rev() {
        perm.swap(i, s.below(i + 1));
    }
    let mut edges: Vec<(usize, usize)> = topo_edges.iter().map(|&(c, p)| (perm[c], perm[p])).collect();
    for i in (1..edges.len()).rev() {
        edges.swap(i, s.below(i + 1));
    }
    if !edges.is_empty() && s.chance(1, 8) {
        let d = edges[s.below(edges.len())];
        edges.push(d); // duplicate covering edge: must be collapsed
    }
    let (base, stride) = match s.below(3) {
        0 => (0u64, 1u64),
        1 => (1000, 13),
        _ => (u64::MAX - 5000, 7),
    };
    let mut idperm: Vec<usize> = (0..n).collect();
    if s.chance(1, 2) {
        for i in (1..n).rev() {
            idperm.swap(i, s.below(i + 1));
        }
    }
    let ids: Vec<u64> = (0..n).map(|i| base + stride * idperm[i] as u64).collect();
    let fam = s.below(4);
    let absent = [0usize, 1, 1, 3][s.below(4)]; // out of 4
    let measure: Vec<Option<Mv>> = (0..n).map(|_| if s.below(4) < absent { None } else { Some(gen_mv(&mut s, fam)) }).collect();
    let cross = s.chance(1, 3);
    let nup = match s.below(6) {
        0 => 0,
        1 | 2 => 1 + s.below(4),
        3 | 4 => 3 + s.below(10),
        _ => 10 + s.below(21),
    };
    let updates: Vec<(usize, Option<Mv>)> = (0..nup)
        .map(|_| {
            let v = s.below(n);
            let val = if s.chance(1, 5) {
                None
            } else if cross && fam != 1 {
                Some(gen_mv(&mut s, 3))
            } else {
                Some(gen_mv(&mut s, fam))
            };
            (v, val)
        })
        .collect();
    let ops: Vec<String> = if s.chance(2, 3) {
        vec!["sum".into(), "min".into(), "max".into(), "count".into()]
    } else {
        let mut o: Vec<String> = ["sum", "min", "max"].iter().filter(|_| s.chance(1, 2)).map(|x| x.to_string()).collect();
        if o.is_empty() {
            o.push("sum".into());
        }
        o
    };
    let fam_name = ["int_small", "int_big", "float_dyadic", "mixed_small"][fam];
    IndexCase { tag: format!("{shape}/{fam_name}{}", if cross && fam != 1 { "+cross_updates" } else { "" }), ids, edges, measure, ops, updates, probes: sels.iter().take(64).copied().collect() }
}

fn index_strategy() -> impl Strategy<Value = (u8, u8, Vec<u16>)> {
    prop_oneof![
        70 => (0u8..7, Just(0u8), proptest::collection::vec(any::<u16>(), 200)),
        22 => (0u8..7, Just(1u8), proptest::collection::vec(any::<u16>(), 500)),
        6 => (0u8..7, Just(2u8), proptest::collection::vec(any::<u16>(), 1200)),
        2 => (0u8..7, Just(3u8), proptest::collection::vec(any::<u16>(), 3000)),
    ]
}

/// every DAG (covering relation) on `n` labelled nodes, as edge lists in lexicographic order
fn all_dags(n: usize) -> Vec<Vec<(usize, usize)>> {
    let mut pairs = Vec::new();
    for c in 0..n {
        for p in 0..n {
            if c != p {
                pairs.push((c, p));
            }
        }
    }
    let mut out = Vec::new();
    for mask in 0u32..(1u32 << pairs.len()) {
        // quick reject: both directions of one pair
        let edges: Vec<(usize, usize)> = pairs.iter().enumerate().filter(|(i, _)| mask & (1 << i) != 0).map(|(_, e)| *e).collect();
        if Oracle::new(n, &edges).is_ok() {
            out.push(edges);
        }
    }
    out
}

fn exhaustive_cases(n: usize, code: usize, edges: &[(usize, usize)]) -> Vec<IndexCase> {
    let pal_a = [Some(Mv::I(3)), None, Some(Mv::F(0.5)), Some(Mv::I(-2)), Some(Mv::F(2.25))];
    let pal_b = [Some(Mv::I(5)), Some(Mv::I(1)), None, Some(Mv::I(-7)), Some(Mv::I(2))];
    let mut out = Vec::new();
    for (variant, pal) in [(0usize, &pal_a), (1usize, &pal_b)] {
        for rev in [false, true] {
            if rev && edges.len() < 2 {
                continue;
            }
            let mut e = edges.to_vec();
            if rev {
                e.reverse();
            }
            let measure: Vec<Option<Mv>> = (0..n).map(|i| pal[(i + code) % 5]).collect();
            let mut updates = Vec::new();
            for v in 0..n {
                if variant == 0 {
                    updates.push((v, Some(Mv::I(4))));
                    updates.push((v, None));
                    updates.push((v, Some(Mv::F(1.5))));
                } else {
                    updates.push((v, Some(Mv::I(9))));
                    updates.push((v, None));
                    updates.push((v, Some(Mv::I(-1))));
                }
            }
            out.push(IndexCase {
                tag: format!("exhaustive/n{n}/{}", if variant == 0 { "mixed" } else { "int" }),
                ids: (0..n).map(|i| 3 * i as u64 + 1).collect(),
                edges: e,
                measure,
                ops: vec!["sum".into(), "min".into(), "max".into(), "count".into()],
                updates,
                probes: vec![],
            });
        }
    }
    out
}

fn remove_index_node(c: &IndexCase, k: usize) -> IndexCase {
    let map = |i: usize| if i > k { i - 1 } else { i };
    let mut d = c.clone();
    d.ids.remove(k);
    d.measure.remove(k);
    d.edges = c.edges.iter().filter(|e| e.0 != k && e.1 != k).map(|&(a, b)| (map(a), map(b))).collect();
    d.updates = c.updates.iter().filter(|u| u.0 != k).map(|&(v, m)| (map(v), m)).collect();
    d
}

fn shrink_index(case: IndexCase, kf: &Kf) -> IndexCase {
    let fails = |c: &IndexCase| -> bool { index_case_valid(c).is_ok() && matches!(catch(|| check_index(c, kf)), Ok(Err(_)) | Err(_)) };
    let mut best = case;
    loop {
        let mut changed = false;
        // updates
        let b2 = best.clone();
        let ups = shrink_vec(best.updates.clone(), &|u: &[(usize, Option<Mv>)]| {
            let mut c = b2.clone();
            c.updates = u.to_vec();
            fails(&c)
        });
        if ups.len() < best.updates.len() {
            best.updates = ups;
            changed = true;
        }
        // nodes (highest first so indices stay meaningful)
        let mut k = best.ids.len();
        while k > 0 {
            k -= 1;
            if best.ids.len() <= 1 {
                break;
            }
            let c = remove_index_node(&best, k);
            if fails(&c) {
                best = c;
                changed = true;
            }
        }
        // edges
        let b3 = best.clone();
        let es = shrink_vec(best.edges.clone(), &|e: &[(usize, usize)]| {
            let mut c = b3.clone();
            c.edges = e.to_vec();
            fails(&c)
        });
        if es.len() < best.edges.len() {
            best.edges = es;
            changed = true;
        }
        // measures → absent, then → 1
        for i in 0..best.measure.len() {
            for cand in [None, Some(Mv::I(1))] {
                if best.measure[i] != cand && (cand.is_none() || best.measure[i].is_some()) {
                    let mut c = best.clone();
                    c.measure[i] = cand;
                    if fails(&c) && (cand.is_none() || best.measure[i] != Some(Mv::I(1))) {
                        best = c;
                        changed = true;
                        break;
                    }
                }
            }
        }
        // plain ids
        let plain: Vec<u64> = (0..best.ids.len() as u64).collect();
        if best.ids != plain {
            let mut c = best.clone();
            c.ids = plain;
            if fails(&c) {
                best = c;
                changed = true;
            }
        }
        if !changed {
            break;
        }
    }
    let mut c = best.clone();
    c.probes.clear();
    if fails(&c) {
        best = c;
    }
    best
}

// =======================================================================================
// layers 2 + 3: store level (Cypher writes → manager hooks) and planner level (twin stores)

#[derive(Clone, Debug, Serialize, Deserialize)]
struct SNode {
    /// carries the extra label :A besides :N
    a: bool,
    m: Option<Mv>,
}

#[derive(Clone, Debug, Serialize, Deserialize)]
struct SFact {
    p: Option<i64>,
    /// :ABOUT relationships to these hierarchy nodes (repeats = parallel relationships)
    about: Vec<usize>,
}

#[derive(Clone, Debug, Serialize, Deserialize, PartialEq)]
enum SOp {
    /// SET n.m = <val> (None = null)
    SetM { node: usize, val: Option<Mv> },
    /// REMOVE n.m
    RemoveM { node: usize },
    /// create a covering relationship child→parent (stored reversed when the index is declared reversed)
    AddEdge { c: usize, p: usize },
    /// delete every covering relationship child→parent
    DelEdge { c: usize, p: usize },
    Rebuild,
    /// SET n.z = 1 (unrelated property)
    SetOther { node: usize },
    /// CREATE (a)-[:U]->(b) (unrelated relationship type)
    OtherEdge { a: usize, b: usize },
    AddNode { a: bool, m: Option<Mv> },
    DetachDelete { node: usize },
}

#[derive(Clone, Debug, Serialize, Deserialize)]
struct Step {
    op: SOp,
    /// uids used as pinned roots for the queries after this step
    roots: Vec<usize>,
}

#[derive(Clone, Debug, Serialize, Deserialize)]
struct StoreCase {
    tag: String,
    nodes: Vec<SNode>,
    edges: Vec<(usize, usize)>,
    facts: Vec<SFact>,
    /// facts are joined as (e:F)<-[:ABOUT]-(x) instead of (e:F)-[:ABOUT]->(x)
    about_in: bool,
    /// index declared ON ()<-[:T]-(): relationships are stored parent→child
    reverse: bool,
    /// MEASURE A.m instead of MEASURE m
    measure_label: bool,
    aggregates: Vec<String>,
    roots0: Vec<usize>,
    steps: Vec<Step>,
}

#[derive(Clone)]
struct MNode {
    a: bool,
    m: Option<Mv>,
    /// carries the unrelated property z = 1
    z: bool,
    alive: bool,
}

#[derive(Clone)]
struct SModel {
    nodes: Vec<MNode>,
    cover: BTreeMap<(usize, usize), u32>,
    facts: Vec<SFact>,
    reverse: bool,
    about_in: bool,
    measure_label: bool,
    /// a covering-edge write happened since the last (re)build
    dirty: bool,
    /// what the index holds per node under the enabled known findings (None = same as strict)
    view: Vec<Option<Mv>>,
    /// the view differs from the declared measure because of a REMOVE (KF-C28-1)
    div_remove: bool,
    /// ... because of a SET on a node without the declared label (KF-C28-5)
    div_label_update: bool,
    /// per-node integer contributions of an integer Fenwick tree (nested-set encoding, no float
    /// among the measures at build time): what SUM is answered from under KF-C28-2
    fen: Option<Vec<i128>>,
    /// a float delta was truncated into `fen`
    div_fen: bool,
}

impl SModel {
    fn new(c: &StoreCase, kf: &Kf) -> SModel {
        let mut m = SModel {
            nodes: c.nodes.iter().map(|n| MNode { a: n.a, m: n.m, z: false, alive: true }).collect(),
            cover: BTreeMap::new(),
            facts: c.facts.clone(),
            reverse: c.reverse,
            about_in: c.about_in,
            measure_label: c.measure_label,
            dirty: false,
            view: Vec::new(),
            div_remove: false,
            div_label_update: false,
            fen: None,
            div_fen: false,
        };
        for &e in &c.edges {
            *m.cover.entry(e).or_insert(0) += 1;
        }
        m.reset_view(kf);
        m
    }
    fn oracle(&self) -> Oracle {
        let e: Vec<(usize, usize)> = self.cover.keys().copied().collect();
        Oracle::new(self.nodes.len(), &e).expect("model stays acyclic")
    }
    fn in_poset(&self) -> Vec<bool> {
        let mut v = vec![false; self.nodes.len()];
        for &(c, p) in self.cover.keys() {
            v[c] = true;
            v[p] = true;
        }
        v
    }
    /// the measure the index is declared over (label restriction applied)
    fn declared(&self, i: usize) -> Option<Mv> {
        if self.measure_label && !self.nodes[i].a {
            None
        } else {
            self.nodes[i].m.and_then(|v| v.strict_num())
        }
    }
    /// what a (re)build stores for node i under the enabled known findings
    fn held(&self, i: usize, kf: &Kf) -> Option<Mv> {
        if self.measure_label && !self.nodes[i].a {
            None
        } else {
            self.nodes[i].m.and_then(|v| v.index_norm(kf))
        }
    }
    fn has_nonnumeric(&self) -> bool {
        self.nodes.iter().any(|n| n.m.map(|v| !v.numeric()).unwrap_or(false))
    }
    fn reset_view(&mut self, kf: &Kf) {
        self.view = (0..self.nodes.len()).map(|i| self.held(i, kf)).collect();
        self.div_remove = false;
        self.div_label_update = false;
        self.div_fen = false;
        let inp = self.in_poset();
        let any_float = (0..self.nodes.len()).any(|i| inp[i] && self.view[i].map(|v| v.is_float()).unwrap_or(false));
        self.fen = if self.oracle().is_tree() && !any_float { Some(self.view.iter().map(|v| v.map(|x| x.scaled() / 8).unwrap_or(0)).collect()) } else { None };
    }
    fn alive(&self, i: usize) -> bool {
        i < self.nodes.len() && self.nodes[i].alive
    }
    /// the manager hands `new` to OehIndex::update_measure for `node`
    fn index_write(&mut self, node: usize, new: Option<Mv>) {
        let old = self.view[node];
        self.view[node] = new;
        if let Some(f) = self.fen.as_mut() {
            let delta: i128 = match (new, old) {
                (Some(Mv::I(a)), Some(Mv::I(b))) => a as i128 - b as i128,
                (Some(Mv::I(a)), None) => a as i128,
                (None, Some(Mv::I(b))) => -(b as i128),
                (None, None) => 0,
                (a, b) => {
                    self.div_fen = true;
                    (a.map(|m| m.as_f64()).unwrap_or(0.0) - b.map(|m| m.as_f64()).unwrap_or(0.0)) as i128
                }
            };
            f[node] += delta;
        }
    }
    /// what the index answers from for `op` at node z under the enabled known findings (units of 1/8)
    fn view_val(&self, z: usize, op: Op, kf: &Kf) -> Option<i128> {
        if op == Op::Sum && kf.fenwick_trunc {
            if let Some(f) = &self.fen {
                return Some(f[z] * 8);
            }
        }
        self.view[z].map(|v| v.scaled())
    }
    fn node_pat(&self, var: &str, uid: usize) -> String {
        format!("({var}:N {{uid: {uid}}})")
    }
    /// stored direction of a covering pair
    fn stored(&self, c: usize, p: usize) -> (usize, usize) {
        if self.reverse {
            (p, c)
        } else {
            (c, p)
        }
    }
    /// Apply `op` to the model; returns the statements for (both stores, indexed store only),
    /// or None when the op is not applicable in the current state.
    fn apply(&mut self, op: &SOp, kf: &Kf) -> Option<(Vec<String>, Vec<String>)> {
        match op {
            SOp::SetM { node, val } => {
                if !self.alive(*node) {
                    return None;
                }
                self.nodes[*node].m = *val;
                // KF-C28-5: the manager applies the write without looking at the declared label
                let eligible = !self.measure_label || self.nodes[*node].a || kf.measure_label_update;
                let nv = if eligible { val.and_then(|v| v.index_norm(kf)) } else { None };
                self.index_write(*node, nv);
                if self.measure_label && !self.nodes[*node].a && self.view[*node] != self.declared(*node) {
                    self.div_label_update = true;
                }
                let lit = val.map(|v| v.literal()).unwrap_or_else(|| "null".into());
                Some((vec![format!("MATCH {} SET n.m = {lit}", self.node_pat("n", *node))], vec![]))
            }
            SOp::RemoveM { node } => {
                if !self.alive(*node) {
                    return None;
                }
                self.nodes[*node].m = None;
                if !kf.remove_prop {
                    self.index_write(*node, None);
                } else if self.view[*node].is_some() {
                    // KF-C28-1: the index keeps the old value
                    self.div_remove = true;
                }
                Some((vec![format!("MATCH {} REMOVE n.m", self.node_pat("n", *node))], vec![]))
            }
            SOp::AddEdge { c, p } => {
                if !self.alive(*c) || !self.alive(*p) || c == p || self.oracle().sub(*p, *c) {
                    return None;
                }
                *self.cover.entry((*c, *p)).or_insert(0) += 1;
                self.dirty = true;
                let (s, d) = self.stored(*c, *p);
                Some((vec![format!("MATCH {}, {} CREATE (a)-[:T]->(b)", self.node_pat("a", s), self.node_pat("b", d))], vec![]))
            }
            SOp::DelEdge { c, p } => {
                if self.cover.remove(&(*c, *p)).is_none() {
                    return None;
                }
                self.dirty = true;
                let (s, d) = self.stored(*c, *p);
                Some((vec![format!("MATCH {}-[t:T]->{} DELETE t", self.node_pat("a", s), self.node_pat("b", d))], vec![]))
            }
            SOp::Rebuild => {
                self.dirty = false;
                self.reset_view(kf);
                Some((vec![], vec!["REBUILD HIERARCHY INDEX h".to_string()]))
            }
            SOp::SetOther { node } => {
                if !self.alive(*node) {
                    return None;
                }
                self.nodes[*node].z = true;
                Some((vec![format!("MATCH {} SET n.z = 1", self.node_pat("n", *node))], vec![]))
            }
            SOp::OtherEdge { a, b } => {
                if !self.alive(*a) || !self.alive(*b) {
                    return None;
                }
                Some((vec![format!("MATCH {}, {} CREATE (a)-[:U]->(b)", self.node_pat("a", *a), self.node_pat("b", *b))], vec![]))
            }
            SOp::AddNode { a, m } => {
                let uid = self.nodes.len();
                self.nodes.push(MNode { a: *a, m: *m, z: false, alive: true });
                self.view.push(None); // not part of the built poset
                if let Some(f) = self.fen.as_mut() {
                    f.push(0);
                }
                Some((vec![create_node_stmt(uid, *a, *m)], vec![]))
            }
            SOp::DetachDelete { node } => {
                if !self.alive(*node) {
                    return None;
                }
                let before = self.cover.len();
                self.cover.retain(|&(c, p), _| c != *node && p != *node);
                if self.cover.len() != before {
                    self.dirty = true;
                }
                for f in self.facts.iter_mut() {
                    f.about.retain(|x| x != node);
                }
                self.nodes[*node].alive = false;
                self.nodes[*node].m = None;
                Some((vec![format!("MATCH {} DETACH DELETE n", self.node_pat("n", *node))], vec![]))
            }
        }
    }
}

fn create_node_stmt(uid: usize, a: bool, m: Option<Mv>) -> String {
    format!("CREATE (:N{} {{uid: {uid}{}}})", if a { ":A" } else { "" }, m.map(|v| format!(", m: {}", v.literal())).unwrap_or_default())
}

fn setup_statements(c: &StoreCase) -> Vec<String> {
    let mut out = Vec::new();
    for (i, n) in c.nodes.iter().enumerate() {
        out.push(create_node_stmt(i, n.a, n.m));
    }
    for &(ch, p) in &c.edges {
        let (s, d) = if c.reverse { (p, ch) } else { (ch, p) };
        out.push(format!("MATCH (a:N {{uid: {s}}}), (b:N {{uid: {d}}}) CREATE (a)-[:T]->(b)"));
    }
    for (j, f) in c.facts.iter().enumerate() {
        out.push(format!("CREATE (:F {{fid: {j}{}}})", f.p.map(|p| format!(", p: {p}")).unwrap_or_default()));
        for &x in &f.about {
            if c.about_in {
                out.push(format!("MATCH (f:F {{fid: {j}}}), (x:N {{uid: {x}}}) CREATE (x)-[:ABOUT]->(f)"));
            } else {
                out.push(format!("MATCH (f:F {{fid: {j}}}), (x:N {{uid: {x}}}) CREATE (f)-[:ABOUT]->(x)"));
            }
        }
    }
    out
}

fn index_ddl(c: &StoreCase) -> String {
    format!(
        "CREATE HIERARCHY INDEX h ON {} MEASURE {}m AGGREGATE {}",
        if c.reverse { "()<-[:T]-()" } else { "()-[:T]->()" },
        if c.measure_label { "A." } else { "" },
        c.aggregates.join(", ")
    )
}

struct Twin {
    e: QueryEngine,
    a: GraphStore,
    b: GraphStore,
    /// uid → NodeId and NodeId → printable name, per store
    ids_a: BTreeMap<usize, NodeId>,
    names_a: BTreeMap<u64, String>,
    names_b: BTreeMap<u64, String>,
}

type Rows = (Vec<String>, Vec<String>, Vec<String>); // (columns, canonical sorted rows, raw sorted rows)

fn node_names(store: &GraphStore) -> (BTreeMap<usize, NodeId>, BTreeMap<u64, String>) {
    let mut ids = BTreeMap::new();
    let mut names = BTreeMap::new();
    for id in vcheck::dump::live_node_ids(store) {
        let props = store.node_properties_full(id);
        if let Some(PropertyValue::Integer(u)) = props.get("uid") {
            ids.insert(*u as usize, id);
            names.insert(id.as_u64(), format!("N{u}"));
        } else if let Some(PropertyValue::Integer(f)) = props.get("fid") {
            names.insert(id.as_u64(), format!("F{f}"));
        }
    }
    (ids, names)
}

fn canon_prop(p: &PropertyValue) -> String {
    match p {
        PropertyValue::Integer(i) => format!("n:{}", *i as i128 * 8),
        PropertyValue::Float(f) => match f64_scaled(*f) {
            Ok(s) => format!("n:{s}"),
            Err(_) => format!("f:{:016x}", f.to_bits()),
        },
        PropertyValue::Null => "null".into(),
        PropertyValue::Boolean(b) => format!("b:{b}"),
        PropertyValue::String(s) => format!("s:{s}"),
        PropertyValue::Array(a) => format!("[{}]", a.iter().map(canon_prop).collect::<Vec<_>>().join(",")),
        other => format!("{other:?}"),
    }
}

fn canon_cell(v: Option<&QValue>, names: &BTreeMap<u64, String>) -> (String, String) {
    match v {
        None => ("MISSING".into(), "MISSING".into()),
        Some(QValue::Node(id, _)) | Some(QValue::NodeRef(id)) => {
            let s = names.get(&id.as_u64()).cloned().unwrap_or_else(|| format!("node#{}", id.as_u64()));
            (s.clone(), s)
        }
        Some(QValue::Property(p)) => (canon_prop(p), format!("{p:?}")),
        Some(QValue::Null) => ("null".into(), "Null".into()),
        Some(other) => (format!("{other:?}"), format!("{other:?}")),
    }
}

fn run_read(e: &QueryEngine, store: &GraphStore, names: &BTreeMap<u64, String>, q: &str) -> Result<Result<Rows, String>, String> {
    catch(|| match e.execute(q, store) {
        Ok(b) => {
            let mut canon = Vec::new();
            let mut raw = Vec::new();
            for r in &b.records {
                let cells: Vec<(String, String)> = b.columns.iter().map(|c| canon_cell(r.get(c), names)).collect();
                canon.push(cells.iter().map(|c| c.0.clone()).collect::<Vec<_>>().join(" | "));
                raw.push(cells.iter().map(|c| c.1.clone()).collect::<Vec<_>>().join(" | "));
            }
            canon.sort();
            raw.sort();
            Ok((b.columns.clone(), canon, raw))
        }
        Err(err) => Err(err.to_string()),
    })
}

enum WriteOutcome {
    Done,
    Refused(String),
}

impl Twin {
    fn new() -> Twin {
        Twin { e: QueryEngine::new(), a: GraphStore::new(), b: GraphStore::new(), ids_a: BTreeMap::new(), names_a: BTreeMap::new(), names_b: BTreeMap::new() }
    }
    fn refresh_names(&mut self) {
        let (ia, na) = node_names(&self.a);
        let (_, nb) = node_names(&self.b);
        self.ids_a = ia;
        self.names_a = na;
        self.names_b = nb;
    }
    fn write(&mut self, q: &str, both: bool) -> Result<WriteOutcome, String> {
        let e = &self.e;
        let a = &mut self.a;
        let ra = catch(|| e.execute_mut(q, a, "default").map(|_| ()).map_err(|e| e.to_string())).map_err(|m| format!("panic in `{q}` on the indexed store: {m}"))?;
        if !both {
            return match ra {
                Ok(()) => Ok(WriteOutcome::Done),
                Err(m) => Err(format!("`{q}` failed on the indexed store: {m}")),
            };
        }
        let b = &mut self.b;
        let rb = catch(|| e.execute_mut(q, b, "default").map(|_| ()).map_err(|e| e.to_string())).map_err(|m| format!("panic in `{q}` on the plain store: {m}"))?;
        match (ra, rb) {
            (Ok(()), Ok(())) => Ok(WriteOutcome::Done),
            (Err(x), Err(_)) => Ok(WriteOutcome::Refused(x)),
            (Err(x), Ok(())) => Err(format!("`{q}` failed only on the indexed store: {x}")),
            (Ok(()), Err(x)) => Err(format!("`{q}` failed only on the plain store: {x}")),
        }
    }
}

fn num_row(v: Option<i128>) -> String {
    match v {
        Some(x) => format!("n:{x}"),
        None => "null".into(),
    }
}

struct PQ {
    kind: &'static str,
    a: String,
    /// spelling for the plain twin (None = same text)
    b: Option<String>,
    /// brute-force rows (canonical, sorted) in query semantics; None = not modelled
    model: Option<Vec<String>>,
    /// brute-force rows when the answer is read from the index under enabled known findings
    quirk: Option<Vec<String>>,
    /// only meaningful when the planner rewrote it (uses subsumes())
    needs_rewrite: bool,
    /// no variable-length spelling exists for the plain twin (NOT subsumes): brute force only
    no_twin: bool,
}

fn planner_queries(m: &SModel, orc: &Oracle, k: usize, salt: usize, kf: &Kf) -> Vec<PQ> {
    let mut out = Vec::new();
    let inp = m.in_poset();
    let root_alive = m.alive(k);
    let pin = format!("(r:N {{uid: {k}}})");
    // For a reverse-declared hierarchy (relationships stored parent -> child) the natural
    // spelling walks the stored direction away from the pinned node; the forward spelling
    // (nodes that reach r = its hierarchy ancestors) is kept as a minority.
    let natural = m.reverse && salt % 4 != 3;
    // the nodes the pattern binds d to
    let fwd: Vec<usize> = if !root_alive {
        vec![]
    } else if m.reverse && !natural {
        (0..orc.n).filter(|&d| orc.sub(k, d)).collect()
    } else {
        orc.desc[k].clone()
    };
    // hierarchy descendants of k as the index sees them
    let hdesc: Vec<usize> = if root_alive && inp[k] { orc.desc[k].clone() } else { vec![] };
    let pat = if natural {
        if salt % 2 == 0 { format!("{pin}-[:T*0..]->(d)") } else { format!("(d)<-[:T*0..]-{pin}") }
    } else if salt % 2 == 0 {
        format!("(d)-[:T*0..]->{pin}")
    } else {
        format!("{pin}<-[:T*0..]-(d)")
    };
    // query semantics: sum / avg see numbers only; min / max order every non-null value
    let true_m = |z: usize| m.nodes[z].m.and_then(|v| v.strict_num()).map(|v| v.scaled());
    let fwd_nonnum = fwd.iter().any(|&z| m.nodes[z].m.map(|v| !v.numeric()).unwrap_or(false));
    let fwd_missing = fwd.iter().any(|&z| m.nodes[z].m.is_none());
    // KF-C28-4: the rewrite answers with hierarchy descendants although the stored direction is reversed
    let rev_quirk = kf.reverse_rewrite && m.reverse && !natural && root_alive && inp[k];
    let idx_set: &Vec<usize> = &hdesc;
    for (i, op) in ALL_OPS.iter().enumerate() {
        let alias = if (salt + i) % 3 == 0 { " AS v" } else { "" };
        let expr = if *op == Op::Count { "count(d)".to_string() } else { format!("{}(d.m)", op.name()) };
        let unmodelled = fwd_nonnum && matches!(op, Op::Min | Op::Max);
        let model = if root_alive && !unmodelled { Some(vec![num_row(fold(&fwd, &true_m, *op))]) } else { None };
        let quirk = if root_alive && inp[k] { Some(vec![num_row(fold(idx_set, &|z| m.view_val(z, *op, kf), *op))]) } else { None };
        out.push(PQ { kind: "rollup", a: format!("MATCH {pat} RETURN {expr}{alias}"), b: None, model, quirk, needs_rewrite: false, no_twin: false });
    }
    // ---- aggregate forms the index must NOT answer structurally: property forms of count,
    // DISTINCT, avg, other properties, several items; and patterns other than `*0..`
    {
        let tagv = if fwd_nonnum { "with_nonnumeric_values" } else if fwd_missing { "with_missing_values" } else { "all_values_present" };
        let cnt_m = fwd.iter().filter(|&&z| m.nodes[z].m.is_some()).count() as i128 * 8;
        let cnt_z = fwd.iter().filter(|&&z| m.nodes[z].z).count() as i128 * 8;
        let sum_uid: i128 = fwd.iter().map(|&z| z as i128 * 8).sum();
        let one = |v: i128| if root_alive { Some(vec![num_row(Some(v))]) } else { None };
        // (kind, RETURN expression, brute force)
        let mut forms: Vec<(&'static str, String, Option<Vec<String>>)> = vec![
            ("count_of_property", "count(d.m)".to_string(), one(cnt_m)),
            ("count_star", "count(*)".to_string(), one(fwd.len() as i128 * 8)),
        ];
        let rotating: Vec<(&'static str, String, Option<Vec<String>>)> = vec![
            ("count_distinct_of_property", "count(DISTINCT d.m)".to_string(), None),
            ("avg_of_property", "avg(d.m)".to_string(), None),
            ("sum_distinct_of_property", "sum(DISTINCT d.m)".to_string(), None),
            ("count_of_other_property", "count(d.z)".to_string(), one(cnt_z)),
            ("sum_of_other_property", "sum(d.uid)".to_string(), one(sum_uid)),
            ("max_of_other_property", "max(d.uid) AS top".to_string(), None),
            ("count_distinct_entity", "count(DISTINCT d)".to_string(), one(fwd.len() as i128 * 8)),
            ("two_aggregates", "count(d) AS c, sum(d.m) AS s".to_string(), None),
            ("count_of_property_aliased", "count(d.m) AS c".to_string(), one(cnt_m)),
        ];
        for j in 0..3 {
            forms.push(rotating[(salt + j * 4) % rotating.len()].clone());
        }
        for (kind, expr, model) in forms {
            out.push(PQ { kind: leak(format!("{kind}:{tagv}")), a: format!("MATCH {pat} RETURN {expr}"), b: None, model, quirk: None, needs_rewrite: false, no_twin: false });
        }
        // other pattern shapes, with a rotating aggregate (entity and property forms)
        let pats: [(&'static str, String); 7] = [
            ("star_1_unbounded", format!("(d)-[:T*1..]->{pin}")),
            ("star_default", format!("{pin}<-[:T*]-(d)")),
            ("star_0_to_2", format!("(d)-[:T*0..2]->{pin}")),
            ("star_0_to_1", format!("{pin}<-[:T*0..1]-(d)")),
            ("opposite_direction", format!("(d)<-[:T*0..]-{pin}")),
            ("pin_in_where", "(d)-[:T*0..]->(r:N) WHERE r.uid = ".to_string() + &k.to_string()),
            ("pin_without_label", format!("(d)-[:T*0..]->(r {{uid: {k}}})")),
        ];
        let aggs = ["count(d)", "sum(d.m)", "count(d.m)", "min(d.m)", "max(d.m)", "count(*)", "d"];
        for j in 0..2 {
            let (pk, ptxt) = &pats[(salt + j * 3) % pats.len()];
            let agg = aggs[(salt / 2 + j * 5) % aggs.len()];
            out.push(PQ { kind: leak(format!("shape:{pk}")), a: format!("MATCH {ptxt} RETURN {agg}"), b: None, model: None, quirk: None, needs_rewrite: false, no_twin: false });
        }
    }
    {
        let model = if root_alive { Some(sorted(fwd.iter().map(|d| format!("N{d}")).collect())) } else { None };
        let quirk = if rev_quirk { Some(sorted(hdesc.iter().map(|d| format!("N{d}")).collect())) } else { None };
        out.push(PQ { kind: "descendant_scan", a: format!("MATCH {pat} RETURN d"), b: None, model, quirk, needs_rewrite: false, no_twin: false });
    }
    // order test
    let lab = if salt % 3 == 1 { "A" } else { "N" };
    let scanned: Vec<usize> = (0..orc.n).filter(|&d| m.alive(d) && (lab == "N" || m.nodes[d].a)).collect();
    let under: Vec<usize> = scanned.iter().copied().filter(|&d| root_alive && inp[d] && inp[k] && orc.sub(d, k)).collect();
    let outside: Vec<usize> = scanned.iter().copied().filter(|d| !under.contains(d)).collect();
    let vl = |dl: &str| if m.reverse { format!("{pin}-[:T*0..]->(d{dl})") } else { format!("(d{dl})-[:T*0..]->{pin}") };
    let dl = format!(":{lab}");
    let cnt = if salt % 3 != 0 { "count(d)" } else { "count(*)" };
    out.push(PQ {
        kind: "order_test_count",
        a: format!("MATCH (d:{lab}), {pin} WHERE subsumes(d, r) RETURN {cnt} AS c"),
        b: Some(format!("MATCH {} RETURN {cnt} AS c", vl(&dl))),
        model: Some(vec![num_row(Some(under.len() as i128 * 8))]),
        quirk: None,
        needs_rewrite: true,
        no_twin: false,
    });
    out.push(PQ {
        kind: "order_test_nodes",
        a: format!("MATCH {pin}, (d:{lab}) WHERE subsumes(d, r) RETURN d"),
        b: Some(format!("MATCH {} RETURN d", vl(&dl))),
        model: Some(sorted(under.iter().map(|d| format!("N{d}")).collect())),
        quirk: None,
        needs_rewrite: true,
        no_twin: false,
    });
    if salt % 2 == 0 {
        out.push(PQ {
            kind: "order_test_not",
            a: format!("MATCH (d:{lab}), {pin} WHERE NOT subsumes(d, r) RETURN d"),
            b: None,
            model: Some(sorted(outside.iter().map(|d| format!("N{d}")).collect())),
            quirk: None,
            needs_rewrite: true,
            no_twin: true,
        });
    } else {
        out.push(PQ {
            kind: "order_test_not",
            a: format!("MATCH (d:{lab}), {pin} WHERE NOT subsumes(d, r) RETURN count(d)"),
            b: None,
            model: Some(vec![num_row(Some(outside.len() as i128 * 8))]),
            quirk: None,
            needs_rewrite: true,
            no_twin: true,
        });
    }
    // hierarchy-driven
    let fact_pat = if m.about_in { "(e:F)<-[:ABOUT]-(x)" } else { "(e:F)-[:ABOUT]->(x)" };
    let tail = if m.reverse { format!("<-[:T*0..]-{pin}") } else { format!("-[:T*0..]->{pin}") };
    let mut pairs: Vec<(usize, usize)> = Vec::new();
    for (j, f) in m.facts.iter().enumerate() {
        for &x in &f.about {
            if root_alive && m.alive(x) && inp[x] && inp[k] && orc.sub(x, k) {
                pairs.push((j, x));
            }
        }
    }
    let distinct: BTreeSet<usize> = pairs.iter().map(|p| p.0).collect();
    let psum: i128 = pairs.iter().filter_map(|p| m.facts[p.0].p).map(|v| v as i128 * 8).sum();
    let (ret, model) = match salt % 3 {
        0 => ("count(e)".to_string(), num_row(Some(pairs.len() as i128 * 8))),
        1 => ("sum(e.p) AS total".to_string(), num_row(Some(psum))),
        _ => ("count(DISTINCT e)".to_string(), num_row(Some(distinct.len() as i128 * 8))),
    };
    out.push(PQ {
        kind: "hierarchy_driven",
        a: format!("MATCH {fact_pat}, {pin} WHERE subsumes(x, r) RETURN {ret}"),
        b: Some(format!("MATCH {fact_pat}{tail} RETURN {ret}")),
        model: Some(vec![model]),
        quirk: None,
        needs_rewrite: true,
        no_twin: false,
    });
    out
}

/// class names built at run time (a few dozen distinct strings)
fn leak(s: String) -> &'static str {
    use std::sync::Mutex;
    static POOL: Mutex<Vec<&'static str>> = Mutex::new(Vec::new());
    let mut p = POOL.lock().unwrap();
    if let Some(x) = p.iter().find(|x| **x == s) {
        return x;
    }
    let l: &'static str = Box::leak(s.into_boxed_str());
    p.push(l);
    l
}

fn sorted(mut v: Vec<String>) -> Vec<String> {
    v.sort();
    v
}

fn rewrite_kind(e: &QueryEngine, store: &GraphStore, q: &str) -> Result<Option<&'static str>, String> {
    let _ = e;
    let parsed = catch(|| parse_query(q)).map_err(|m| format!("parser panicked on `{q}`: {m}"))?.map_err(|e| format!("`{q}` does not parse: {e}"))?;
    let r = catch(|| hierarchy_detector::detect(&parsed, store)).map_err(|m| format!("hierarchy_detector::detect panicked on `{q}`: {m}"))?;
    Ok(r.map(|r| match r {
        HierarchyRewrite::Rollup { .. } => "rollup",
        HierarchyRewrite::OrderTest { .. } => "order_test",
        HierarchyRewrite::HierarchyDriven { .. } => "hierarchy_driven",
        HierarchyRewrite::DescendantScan { .. } => "descendant_scan",
    }))
}

/// which enabled known finding (if any) explains an index-side answer that equals the
/// brute-force fold over the model's index view. `query` = the answer is compared in query
/// semantics (rewritten roll-up), where the orientation and the label restriction matter too.
fn explain(m: &SModel, kf: &Kf, query: bool) -> Option<&'static str> {
    if query && m.reverse && kf.reverse_rewrite {
        return Some("KF-C28-4");
    }
    if query && m.measure_label && kf.measure_label_rewrite {
        return Some("KF-C28-3");
    }
    if m.div_remove && kf.remove_prop {
        return Some("KF-C28-1");
    }
    if m.div_label_update && kf.measure_label_update {
        return Some("KF-C28-5");
    }
    if m.div_fen && kf.fenwick_trunc {
        return Some("KF-C28-2");
    }
    if m.has_nonnumeric() && kf.nonnumeric {
        return Some("KF-C28-6");
    }
    None
}

fn observe(t: &Twin, c: &StoreCase, m: &SModel, roots: &[usize], step: &str, must_be_usable: bool, kf: &Kf, info: &mut Info) -> Result<(), String> {
    let orc = m.oracle();
    let inp = m.in_poset();
    let n = m.nodes.len();
    let built: Vec<Op> = c.aggregates.iter().filter_map(|o| Op::parse(o)).collect();
    // ---- O1: staleness rule
    let entry = t.a.hierarchy_index.get("h").ok_or_else(|| format!("{step}: hierarchy index entry 'h' vanished"))?;
    let usable = {
        let g = entry.read().unwrap();
        g.usable()
    };
    if m.dirty && usable {
        return Err(format!("{step}: the covering relation was written since the last build, but the index entry is still usable (stale flag not set)"));
    }
    if must_be_usable && !usable {
        let g = entry.read().unwrap();
        return Err(format!("{step}: index not usable right after (re)build: stale={} declined={:?}", g.stale, g.declined));
    }
    info.class(if usable { "store:observe_usable" } else if m.dirty { "store:observe_stale_after_cover_write" } else { "store:observe_stale_conservative" });
    // ---- O2: direct index answers
    if usable {
        let g = entry.read().unwrap();
        let idx = g.index.as_ref().ok_or_else(|| format!("{step}: usable entry without index"))?;
        let id_of = |i: usize| -> Option<NodeId> { t.ids_a.get(&i).copied() };
        let members = inp.iter().filter(|b| **b).count();
        if idx.poset().n() != members {
            return Err(format!("{step}: index covers {} nodes, the covering relation has {members}", idx.poset().n()));
        }
        let res = catch(|| -> Result<Option<&'static str>, String> {
            let mut hit = None;
            for x in 0..n {
                let Some(ix) = id_of(x) else { continue };
                for y in 0..n {
                    let Some(iy) = id_of(y) else { continue };
                    let want = if inp[x] && inp[y] { Some(orc.sub(x, y)) } else { None };
                    let got = idx.subsumes_ids(ix, iy);
                    if got != want {
                        return Err(format!("{step}: subsumes_ids(N{x},N{y}) = {got:?}, brute force {want:?}"));
                    }
                    if n <= 12 && inp[x] && inp[y] {
                        let mut got: Vec<u64> = idx.lowest_common_ancestors_ids(ix, iy).unwrap_or_default().into_iter().map(|i| i.as_u64()).collect();
                        got.sort();
                        let mut want: Vec<u64> = orc.lca(x, y).into_iter().filter_map(|i| id_of(i)).map(|i| i.as_u64()).collect();
                        want.sort();
                        if got != want {
                            return Err(format!("{step}: lowest_common_ancestors_ids(N{x},N{y}) = {got:?}, brute force {want:?} (node ids)"));
                        }
                    }
                }
                if !inp[x] {
                    if let Some(v) = idx.rollup_id(ix, RollupOp::Count) {
                        return Err(format!("{step}: rollup_id(N{x},count) = {v:?} for a node outside the hierarchy"));
                    }
                    continue;
                }
                let px = idx.poset().idx(ix).unwrap();
                let mut got: Vec<u64> = idx.descendants(px).into_iter().map(|i| idx.poset().node_at(i).as_u64()).collect();
                got.sort();
                let mut want: Vec<u64> = orc.desc[x].iter().filter_map(|&i| id_of(i)).map(|i| i.as_u64()).collect();
                want.sort();
                if got != want {
                    return Err(format!("{step}: descendants(N{x}) = {got:?}, brute force {want:?} (node ids)"));
                }
                for op in ALL_OPS {
                    let got = idx.rollup_id(ix, op.repo());
                    let avail = op == Op::Count || built.contains(&op);
                    match (got, avail) {
                        (None, false) => {}
                        (Some(v), true) => {
                            let strict = fold(&orc.desc[x], &|z| m.declared(z).map(|v| v.scaled()), op);
                            let gs = rv_scaled(&v);
                            if gs.as_ref().ok() == Some(&strict) {
                                continue;
                            }
                            let quirk = fold(&orc.desc[x], &|z| m.view_val(z, op, kf), op);
                            if let (Some(id), true) = (explain(m, kf, false), gs.as_ref().ok() == Some(&quirk)) {
                                hit = Some(id);
                                continue;
                            }
                            return Err(format!("{step}: index roll-up {}(N{x}) = {v:?}, brute force over descendants {:?} gives {}", op.name(), orc.desc[x], num_row(strict)));
                        }
                        (g, a) => return Err(format!("{step}: rollup_id(N{x},{}) = {g:?} but built={a}", op.name())),
                    }
                }
            }
            Ok(hit)
        })
        .map_err(|p| format!("{step}: panic in direct index queries: {p}"))??;
        if let Some(id) = res {
            info.kf.push(id);
        }
    }
    // ---- O3: planner level, twin stores
    for (ri, &k) in roots.iter().enumerate() {
        let salt = k + ri + step.len();
        for pq in planner_queries(m, &orc, k, salt, kf) {
            let rewritten = rewrite_kind(&t.e, &t.a, &pq.a)?;
            if pq.needs_rewrite && rewritten.is_none() {
                info.class(&format!("planner:{}:not_rewritten", pq.kind));
                continue;
            }
            match rewritten {
                Some(r) => info.class(&format!("planner:{}:rewritten_as_{r}", pq.kind)),
                None => info.class(&format!("planner:{}:fallback", pq.kind)),
            }
            let ra = run_read(&t.e, &t.a, &t.names_a, &pq.a).map_err(|p| format!("{step}: panic running `{}` on the indexed store: {p}", pq.a))?;
            let btext = pq.b.as_ref().unwrap_or(&pq.a);
            let rb = if pq.no_twin { ra.clone() } else { run_read(&t.e, &t.b, &t.names_b, btext).map_err(|p| format!("{step}: panic running `{btext}` on the plain store: {p}"))? };
            let (ca, rowsa, rawa) = match (ra, &rb) {
                (Ok(x), _) => x,
                (Err(_), Err(_)) => {
                    info.refusals += 1;
                    continue;
                }
                (Err(e), Ok(_)) => return Err(format!("{step}: `{}` fails on the indexed store only: {e}", pq.a)),
            };
            let quirk_ok = |info: &mut Info| -> bool {
                if let (Some(q), Some(id)) = (&pq.quirk, explain(m, kf, true)) {
                    if rewritten.is_some() && &rowsa == q {
                        info.kf.push(id);
                        return true;
                    }
                }
                false
            };
            match rb {
                Ok((cb, rowsb, rawb)) => {
                    if pq.b.is_none() && ca != cb {
                        return Err(format!("{step}: `{}` columns {ca:?} with the index, {cb:?} without", pq.a));
                    }
                    if rowsa != rowsb {
                        if quirk_ok(info) {
                            continue;
                        }
                        return Err(format!(
                            "{step}: `{}` ({}) returns {rawa:?} on the indexed store; the plain twin{} returns {rawb:?}; brute force {:?}",
                            pq.a,
                            rewritten.map(|r| format!("rewritten as {r}")).unwrap_or_else(|| "not rewritten".into()),
                            pq.b.as_ref().map(|b| format!(" (`{b}`)")).unwrap_or_default(),
                            pq.model
                        ));
                    }
                    // (min/max ties between an Integer and an equal Float are resolved by the
                    // engine's hash iteration order, so only the SUM case is counted)
                    if rawa != rawb && pq.a.contains("sum(") {
                        info.class("planner:sum_numeric_type_differs_only");
                    }
                }
                Err(e) => {
                    if pq.b.is_none() {
                        return Err(format!("{step}: `{}` fails on the plain store only: {e}", pq.a));
                    }
                    info.refusals += 1;
                    info.class("planner:twin_spelling_refused");
                }
            }
            if let Some(model) = &pq.model {
                if &rowsa != model && rewritten.is_some() {
                    if quirk_ok(info) {
                        continue;
                    }
                    return Err(format!("{step}: `{}` (rewritten as {}) returns {rawa:?}; brute force rows {model:?}", pq.a, rewritten.unwrap()));
                }
                if &rowsa != model {
                    info.class("planner:unrewritten_differs_from_model");
                }
            }
        }
        // direct functions on the indexed store
        if usable && m.alive(k) {
            for x in 0..n.min(6) {
                if !m.alive(x) {
                    continue;
                }
                let q = format!("MATCH (a:N {{uid: {x}}}), (b:N {{uid: {k}}}) RETURN subsumes(a, b) AS s, hierarchy_lca(a, b) AS l, hierarchy_rollup(b, 'sum') AS r");
                let (_, rows, raw) = match run_read(&t.e, &t.a, &t.names_a, &q).map_err(|p| format!("{step}: panic running `{q}`: {p}"))? {
                    Ok(r) => r,
                    Err(e) => return Err(format!("{step}: `{q}` failed: {e}")),
                };
                let both = inp[x] && inp[k];
                let s = both && orc.sub(x, k);
                let mut l: Vec<u64> = if both { orc.lca(x, k).into_iter().filter_map(|i| t.ids_a.get(&i)).map(|i| i.as_u64()).collect() } else { vec![] };
                l.sort();
                let lca = format!("[{}]", l.iter().map(|i| format!("n:{}", *i as i128 * 8)).collect::<Vec<_>>().join(","));
                let sum = |view: &dyn Fn(usize) -> Option<i128>| if inp[k] && built.contains(&Op::Sum) { num_row(fold(&orc.desc[k], view, Op::Sum)) } else { "null".to_string() };
                let want = format!("b:{s} | {lca} | {}", sum(&|z| m.declared(z).map(|v| v.scaled())));
                // hierarchy_lca order is unspecified for several minimal ancestors: compare sorted
                let norm = |r: &str| -> String {
                    let parts: Vec<&str> = r.split(" | ").collect();
                    if parts.len() != 3 {
                        return r.to_string();
                    }
                    let mut items: Vec<&str> = parts[1].trim_matches(|c| c == '[' || c == ']').split(',').filter(|s| !s.is_empty()).collect();
                    items.sort_by_key(|s| s.trim_start_matches("n:").parse::<i128>().unwrap_or(0));
                    format!("{} | [{}] | {}", parts[0], items.join(","), parts[2])
                };
                let got = rows.first().map(|r| norm(r)).unwrap_or_default();
                if rows.len() != 1 || got != want {
                    let wantq = format!("b:{s} | {lca} | {}", sum(&|z| m.view_val(z, Op::Sum, kf)));
                    if let (Some(id), true) = (explain(m, kf, false), rows.len() == 1 && got == wantq) {
                        info.kf.push(id);
                        continue;
                    }
                    return Err(format!("{step}: `{q}` returns {raw:?}; brute force (s | lca node ids | sum) = {want}"));
                }
                info.class("store:direct_functions");
            }
        }
    }
    Ok(())
}

fn check_store(c: &StoreCase, kf: &Kf) -> Result<Info, String> {
    let mut info = Info::default();
    Oracle::new(c.nodes.len(), &c.edges).map_err(|e| format!("malformed store case: {e}"))?;
    if c.aggregates.is_empty() || c.aggregates.iter().any(|a| Op::parse(a).is_none()) {
        return Err("malformed store case: aggregates".into());
    }
    if c.facts.iter().any(|f| f.about.iter().any(|&x| x >= c.nodes.len())) {
        return Err("malformed store case: fact target".into());
    }
    let mut t = Twin::new();
    for q in setup_statements(c) {
        match t.write(&q, true)? {
            WriteOutcome::Done => {}
            WriteOutcome::Refused(e) => {
                info.refusals += 1;
                info.class("store:setup_refused");
                let _ = e;
                return Ok(info);
            }
        }
    }
    t.write(&index_ddl(c), false)?;
    t.refresh_names();
    let mut m = SModel::new(c, kf);
    let multi = m.oracle().multi_parent();
    info.class(if multi { "store:multi_parent" } else { "store:tree_or_forest" });
    {
        let e = t.a.hierarchy_index.get("h").ok_or("index entry missing after CREATE HIERARCHY INDEX")?;
        let g = e.read().unwrap();
        info.class(&format!("store:enc:{}", g.index.as_ref().map(|i| i.encoding().name()).unwrap_or("declined")));
    }
    if c.reverse {
        info.class("store:reverse_declared");
    }
    if c.measure_label {
        info.class("store:label_restricted_measure");
    }
    observe(&t, c, &m, &c.roots0, "after CREATE HIERARCHY INDEX", true, kf, &mut info)?;
    let mut measure_write_seen = false;
    for (si, st) in c.steps.iter().enumerate() {
        let Some((both, only_a)) = m.apply(&st.op, kf) else {
            info.class("store:op_inapplicable");
            continue;
        };
        info.class(&format!("store:op:{}", format!("{:?}", st.op).split(|ch: char| !ch.is_alphanumeric()).next().unwrap_or("?")));
        for q in &both {
            if let WriteOutcome::Refused(e) = t.write(q, true)? {
                info.refusals += 1;
                info.class("store:write_refused");
                let _ = e;
                return Ok(info);
            }
        }
        for q in &only_a {
            t.write(q, false)?;
        }
        if matches!(st.op, SOp::AddNode { .. } | SOp::DetachDelete { .. }) {
            t.refresh_names();
        }
        if matches!(st.op, SOp::SetM { .. } | SOp::RemoveM { .. }) {
            measure_write_seen = true;
        }
        let label = format!("after step {si} {:?}", st.op);
        observe(&t, c, &m, &st.roots, &label, st.op == SOp::Rebuild, kf, &mut info)?;
    }
    info.nontrivial = multi || m.oracle().multi_parent() || measure_write_seen;
    Ok(info)
}

// ---- generator (store / planner level)

fn gen_store_mv(s: &mut Sel, mixed: bool) -> Mv {
    if mixed && s.chance(1, 2) {
        Mv::F((s.below(161) as f64 - 80.0) / 8.0)
    } else {
        Mv::I(s.below(41) as i64 - 20)
    }
}

fn gen_store_case(kind: u8, medium: bool, sels: &[u16]) -> StoreCase {
    let mut s = Sel::new(sels);
    let n = if medium { 20 + s.below(30) } else { 2 + s.below(8) };
    let k = if medium { [0usize, 3, 3, 3, 4, 5, 6][kind as usize % 7] } else { kind as usize % 7 };
    let (topo_edges, shape) = gen_shape(&mut s, k, n);
    let mut perm: Vec<usize> = (0..n).collect();
    for i in (1..n).rev() {
        perm.swap(i, s.below(i + 1));
    }
    let mut edges: Vec<(usize, usize)> = topo_edges.iter().map(|&(c, p)| (perm[c], perm[p])).collect();
    for i in (1..edges.len()).rev() {
        edges.swap(i, s.below(i + 1));
    }
    let isolated = s.below(3);
    let total = n + isolated;
    let mixed = s.chance(1, 2);
    let mut nodes: Vec<SNode> = (0..total).map(|_| SNode { a: s.chance(1, 2), m: if s.chance(1, 4) { None } else { Some(gen_store_mv(&mut s, mixed)) } }).collect();
    // where the aggregated property is missing: scattered / on the roots / on the leaves /
    // on a whole subtree / almost everywhere
    let shape_orc = Oracle::new(total, &edges).expect("generated relation is acyclic");
    let absent_mode = ["scattered", "scattered", "roots_absent", "leaves_absent", "subtree_absent", "mostly_absent"][s.below(6)];
    match absent_mode {
        "roots_absent" => {
            for i in 0..total {
                if shape_orc.parents[i].is_empty() {
                    nodes[i].m = None;
                }
            }
        }
        "leaves_absent" => {
            for i in 0..total {
                if shape_orc.desc[i].len() == 1 {
                    nodes[i].m = None;
                }
            }
        }
        "subtree_absent" => {
            let top = s.below(total);
            for &d in &shape_orc.desc[top] {
                nodes[d].m = None;
            }
        }
        "mostly_absent" => {
            let keep = s.below(total);
            for i in 0..total {
                if i != keep {
                    nodes[i].m = None;
                }
            }
        }
        _ => {}
    }
    // non-numeric values of the aggregated property
    let nonnum = s.chance(1, 5);
    if nonnum {
        for i in 0..total {
            if s.chance(1, 4) {
                nodes[i].m = Some(if s.chance(1, 2) { Mv::B(s.chance(1, 2)) } else { Mv::T(s.below(3) as u8) });
            }
        }
    }
    let nf = s.below(5);
    let facts: Vec<SFact> = (0..nf)
        .map(|_| SFact { p: if s.chance(1, 5) { None } else { Some(s.below(21) as i64 - 5) }, about: (0..1 + s.below(3)).map(|_| s.below(total)).collect() })
        .collect();
    let reverse = s.chance(1, 6);
    let measure_label = s.chance(1, 7);
    let about_in = s.chance(1, 4);
    let aggregates: Vec<String> = if s.chance(2, 3) {
        vec!["sum".into(), "min".into(), "max".into(), "count".into()]
    } else {
        let mut o: Vec<String> = ["sum", "min", "max"].iter().filter(|_| s.chance(1, 2)).map(|x| x.to_string()).collect();
        if o.is_empty() {
            o.push("sum".into());
        }
        o
    };
    let nroots = if medium { 1 } else { 2 };
    let mut case = StoreCase { tag: format!("{shape}{}|{absent_mode}|{}", if medium { "/medium" } else { "/small" }, if nonnum { "nonnumeric" } else { "numeric" }), nodes, edges, facts, about_in, reverse, measure_label, aggregates, roots0: vec![], steps: vec![] };
    let mut model = SModel::new(&case, &Kf::default());
    let kf = Kf::default();
    let pick_root = |s: &mut Sel, model: &SModel, near: Option<usize>| -> usize {
        // bias towards an ancestor of the touched node (its roll-up changes), else any node
        if let Some(v) = near {
            if s.chance(2, 3) && v < model.nodes.len() {
                let orc = model.oracle();
                let ancs: Vec<usize> = (0..orc.n).filter(|&a| orc.sub(v, a)).collect();
                return ancs[s.below(ancs.len())];
            }
        }
        s.below(model.nodes.len())
    };
    for _ in 0..nroots {
        let r = pick_root(&mut s, &model, None);
        case.roots0.push(r);
    }
    let nsteps = if medium { 2 + s.below(4) } else { 3 + s.below(10) };
    for _ in 0..nsteps {
        let cur = model.nodes.len();
        let op = if model.dirty && s.chance(1, 2) {
            SOp::Rebuild
        } else {
            match s.below(100) {
                0..=31 => {
                    let node = s.below(cur);
                    let mx = mixed || s.chance(1, 4);
                    let val = if s.chance(1, 6) {
                        None
                    } else if nonnum && s.chance(1, 4) {
                        Some(if s.chance(1, 2) { Mv::B(s.chance(1, 2)) } else { Mv::T(s.below(3) as u8) })
                    } else {
                        Some(gen_store_mv(&mut s, mx))
                    };
                    SOp::SetM { node, val }
                }
                32..=39 => SOp::RemoveM { node: s.below(cur) },
                40..=53 => SOp::AddEdge { c: s.below(cur), p: s.below(cur) },
                54..=65 => {
                    let keys: Vec<(usize, usize)> = model.cover.keys().copied().collect();
                    if keys.is_empty() {
                        SOp::Rebuild
                    } else {
                        let (c, p) = keys[s.below(keys.len())];
                        SOp::DelEdge { c, p }
                    }
                }
                66..=79 => SOp::Rebuild,
                80..=84 => SOp::SetOther { node: s.below(cur) },
                85..=88 => SOp::OtherEdge { a: s.below(cur), b: s.below(cur) },
                89..=94 => SOp::AddNode { a: s.chance(1, 2), m: if s.chance(1, 3) { None } else { Some(gen_store_mv(&mut s, mixed)) } },
                _ => SOp::DetachDelete { node: s.below(cur) },
            }
        };
        let mut trial = model.clone();
        if trial.apply(&op, &kf).is_none() {
            continue;
        }
        model = trial;
        let near = match &op {
            SOp::SetM { node, .. } | SOp::RemoveM { node } | SOp::SetOther { node } => Some(*node),
            SOp::AddEdge { c, .. } | SOp::DelEdge { c, .. } => Some(*c),
            _ => None,
        };
        let mut roots = Vec::new();
        for i in 0..nroots {
            roots.push(pick_root(&mut s, &model, if i == 0 { near } else { None }));
        }
        case.steps.push(Step { op, roots });
    }
    case
}

fn store_strategy() -> impl Strategy<Value = (u8, bool, Vec<u16>)> {
    prop_oneof![
        85 => (0u8..7, Just(false), proptest::collection::vec(any::<u16>(), 160)),
        15 => (0u8..7, Just(true), proptest::collection::vec(any::<u16>(), 400)),
    ]
}

fn remove_store_node(c: &StoreCase, k: usize) -> Option<StoreCase> {
    // only initial nodes; ops that mention the node are dropped, later uids shift down
    if k >= c.nodes.len() {
        return None;
    }
    let map = |i: usize| if i > k { i - 1 } else { i };
    let mut d = c.clone();
    d.nodes.remove(k);
    d.edges = c.edges.iter().filter(|e| e.0 != k && e.1 != k).map(|&(a, b)| (map(a), map(b))).collect();
    for f in d.facts.iter_mut() {
        f.about = f.about.iter().filter(|&&x| x != k).map(|&x| map(x)).collect();
    }
    d.roots0 = c.roots0.iter().filter(|&&r| r != k).map(|&r| map(r)).collect();
    d.steps = c
        .steps
        .iter()
        .filter_map(|st| {
            let op = match &st.op {
                SOp::SetM { node, val } if *node != k => SOp::SetM { node: map(*node), val: *val },
                SOp::RemoveM { node } if *node != k => SOp::RemoveM { node: map(*node) },
                SOp::AddEdge { c, p } if *c != k && *p != k => SOp::AddEdge { c: map(*c), p: map(*p) },
                SOp::DelEdge { c, p } if *c != k && *p != k => SOp::DelEdge { c: map(*c), p: map(*p) },
                SOp::Rebuild => SOp::Rebuild,
                SOp::SetOther { node } if *node != k => SOp::SetOther { node: map(*node) },
                SOp::OtherEdge { a, b } if *a != k && *b != k => SOp::OtherEdge { a: map(*a), b: map(*b) },
                SOp::AddNode { a, m } => SOp::AddNode { a: *a, m: *m },
                SOp::DetachDelete { node } if *node != k => SOp::DetachDelete { node: map(*node) },
                _ => return None,
            };
            Some(Step { op, roots: st.roots.iter().filter(|&&r| r != k).map(|&r| map(r)).collect() })
        })
        .collect();
    Some(d)
}

fn shrink_store(case: StoreCase, kf: &Kf) -> StoreCase {
    let fails = |c: &StoreCase| -> bool {
        match catch(|| check_store(c, kf)) {
            Ok(Err(m)) => !m.starts_with("malformed"),
            Err(_) => true,
            Ok(Ok(_)) => false,
        }
    };
    let mut best = case;
    loop {
        let mut changed = false;
        let b = best.clone();
        let steps = shrink_vec(best.steps.clone(), &|s: &[Step]| {
            let mut c = b.clone();
            c.steps = s.to_vec();
            fails(&c)
        });
        if steps.len() < best.steps.len() {
            best.steps = steps;
            changed = true;
        }
        let b = best.clone();
        let facts = shrink_vec(best.facts.clone(), &|f: &[SFact]| {
            let mut c = b.clone();
            c.facts = f.to_vec();
            fails(&c)
        });
        if facts.len() < best.facts.len() {
            best.facts = facts;
            changed = true;
        }
        let mut k = best.nodes.len();
        while k > 0 {
            k -= 1;
            if best.nodes.len() <= 1 {
                break;
            }
            if let Some(c) = remove_store_node(&best, k) {
                if fails(&c) {
                    best = c;
                    changed = true;
                }
            }
        }
        let b = best.clone();
        let edges = shrink_vec(best.edges.clone(), &|e: &[(usize, usize)]| {
            let mut c = b.clone();
            c.edges = e.to_vec();
            fails(&c)
        });
        if edges.len() < best.edges.len() {
            best.edges = edges;
            changed = true;
        }
        // fewer roots per step, simpler flags and values
        for i in 0..best.steps.len() {
            while best.steps[i].roots.len() > 0 {
                let mut c = best.clone();
                c.steps[i].roots.pop();
                if fails(&c) {
                    best = c;
                    changed = true;
                } else {
                    break;
                }
            }
        }
        while !best.roots0.is_empty() {
            let mut c = best.clone();
            c.roots0.pop();
            if fails(&c) {
                best = c;
                changed = true;
            } else {
                break;
            }
        }
        for flag in 0..3 {
            let mut c = best.clone();
            match flag {
                0 if c.reverse => c.reverse = false,
                1 if c.measure_label => c.measure_label = false,
                2 if c.about_in => c.about_in = false,
                _ => continue,
            }
            if fails(&c) {
                best = c;
                changed = true;
            }
        }
        for i in 0..best.nodes.len() {
            if best.nodes[i].m.is_some() {
                let mut c = best.clone();
                c.nodes[i].m = None;
                if fails(&c) {
                    best = c;
                    changed = true;
                }
            }
            if best.nodes[i].a {
                let mut c = best.clone();
                c.nodes[i].a = false;
                if fails(&c) {
                    best = c;
                    changed = true;
                }
            }
        }
        if !changed {
            break;
        }
    }
    best
}

// =======================================================================================
// driver

fn run_case(case: &serde_json::Value, kf: &Kf) -> Result<Info, String> {
    match case["layer"].as_str() {
        Some("index") => {
            let c: IndexCase = serde_json::from_value(case["case"].clone()).map_err(|e| format!("malformed replay: {e}"))?;
            catch(|| check_index(&c, kf)).map_err(|p| format!("panic: {p}"))?
        }
        Some("store") => {
            let c: StoreCase = serde_json::from_value(case["case"].clone()).map_err(|e| format!("malformed replay: {e}"))?;
            catch(|| check_store(&c, kf)).map_err(|p| format!("panic: {p}"))?
        }
        _ => Err("malformed replay: no layer".into()),
    }
}

fn absorb(ev: &mut Evidence, info: &Info, key: &str) {
    for (k, v) in &info.classes {
        ev.class_n(k, *v);
    }
    if info.nontrivial {
        ev.nontrivial(key);
    }
    for _ in 0..info.refusals {
        ev.refusal();
    }
    for id in &info.kf {
        ev.kf_hit(id);
    }
}

const KF_IDS: [&str; 6] = ["KF-C28-1", "KF-C28-2", "KF-C28-3", "KF-C28-4", "KF-C28-5", "KF-C28-6"];

fn set_kf(kf: &mut Kf, id: &str, on: bool) {
    match id {
        "KF-C28-1" => kf.remove_prop = on,
        "KF-C28-2" => kf.fenwick_trunc = on,
        "KF-C28-3" => kf.measure_label_rewrite = on,
        "KF-C28-5" => kf.measure_label_update = on,
        "KF-C28-6" => kf.nonnumeric = on,
        "KF-C28-4" => kf.reverse_rewrite = on,
        _ => {}
    }
}

fn c28(args: &Args) {
    let mut ev = Evidence::new(
        args,
        "exploration",
        "index level: every DAG (covering relation) on <=4 (thorough <=5) labelled nodes, two edge orders x two measure assignments, plus random trees / forests / brooms / near-trees / layered low-width DAGs / random DAGs / diamond ladders up to 400 nodes with relabelled nodes, sparse ids, int / boundary-int / dyadic-float / mixed measures with absent values and <=30 update_measure steps; probe's choice and every forced encoding; oracle = own brute force (reflexive-transitive subsumption, descendant sets, minimal common ancestors, sum/count/min/max over the descendant SET) after every update. store level: Cypher SET/REMOVE of the measure, create/delete of covering relationships, DETACH DELETE, REBUILD on a store with CREATE HIERARCHY INDEX: entry not usable after a covering write until REBUILD, usable entries answer like brute force. planner level: roll-up / descendant-scan / subsumes order-test / hierarchy-driven count+sum queries on twin stores with and without the index, rows equal as bags (numeric type Integer vs Float of an equal value not asserted). Non-trivial = poset has a node with >=2 parents, or a measure update precedes a roll-up; distinct = distinct cases.",
    );
    ev.assume("measures are integers or dyadic floats (k/8, |k|<=400) so sums are exact; boundary integers only in all-integer cases");
    ev.assume("an Integer and a Float result of equal numeric value are treated as equal (SUM cases counted under planner:sum_numeric_type_differs_only)");
    ev.assume("an entry that went stale after a measure write to a node outside the built poset is accepted (conservative invalidation)");
    let known = Known::load(args);
    let mut kf = Kf::default();

    if let Some(p) = &args.replay {
        let case = load_replay(p);
        ev.case();
        // known-finding matchers stay off in a replay: the saved case is judged strictly
        match run_case(&case, &Kf::default()) {
            Ok(info) => {
                absorb(&mut ev, &info, &case.to_string());
                println!("replay: property held");
            }
            Err(m) => {
                report_violation(&mut ev, &case, &m);
            }
        }
        ev.nontrivial(&case.to_string());
        ev.nontrivial("replay");
        ev.sample(case);
        finish(&ev);
    }

    // known findings: replay each witness strictly; enable its matcher only if it still fails
    for id in KF_IDS {
        if let Some(w) = witness_case(&known, id) {
            let still = run_case(&w, &Kf::default()).is_err();
            if known.witness_result(&mut ev, id, still) {
                set_kf(&mut kf, id, true);
            }
        }
    }
    ev.set("known_finding_matchers", json!(format!("{kf:?}")));

    // regression corpus
    for (p, case) in corpus_cases("C28") {
        ev.case();
        ev.class("corpus");
        match run_case(&case, &kf) {
            Ok(info) => absorb(&mut ev, &info, &case.to_string()),
            Err(m) => {
                report_violation(&mut ev, &case, &format!("{m} (corpus {})", p.display()));
                finish(&ev);
            }
        }
    }

    let mut failure: Option<(serde_json::Value, String)> = None;

    // ---- layer 1a: bounded-exhaustive
    let max_n = args.tier.pick(4usize, 5usize);
    let mut dag_count = 0usize;
    'ex: for n in 1..=max_n {
        for (code, edges) in all_dags(n).iter().enumerate() {
            dag_count += 1;
            for c in exhaustive_cases(n, code, edges) {
                ev.case();
                ev.class("gen:exhaustive");
                match catch(|| check_index(&c, &kf)) {
                    Ok(Ok(info)) => {
                        let key = serde_json::to_string(&c).unwrap();
                        if info.nontrivial && ev.want_sample() && n == 4 && c.edges.len() >= 4 && ev.samples.is_empty() {
                            ev.sample(json!({"layer": "index", "case": c}));
                        }
                        absorb(&mut ev, &info, &key);
                    }
                    Ok(Err(m)) | Err(m) => {
                        ev.frozen = true;
                        let min = shrink_index(c, &kf);
                        let msg = match catch(|| check_index(&min, &kf)) {
                            Ok(Err(m2)) | Err(m2) => m2,
                            _ => m,
                        };
                        failure = Some((json!({"layer": "index", "case": min}), msg));
                        break 'ex;
                    }
                }
            }
        }
    }
    ev.exhaustive = Some(failure.is_none());
    ev.set("exhaustive_bound", json!({"max_nodes": max_n, "dags": dag_count}));

    // ---- layer 1b: random posets
    if failure.is_none() {
        let n = args.tier.pick(5000usize, 100_000usize);
        let raws = generate(args.seed, n, &index_strategy());
        for (kind, sc, sels) in raws {
            let c = gen_index_case(kind, sc, &sels);
            ev.case();
            ev.class(&format!("gen:index:{}", c.tag.split('/').next().unwrap_or("?")));
            ev.class(&format!("gen:index:size_class_{sc}"));
            ev.class(&format!("gen:index:measure:{}", c.tag.split('/').nth(1).unwrap_or("?")));
            match catch(|| check_index(&c, &kf)) {
                Ok(Ok(info)) => {
                    let key = serde_json::to_string(&c).unwrap();
                    if info.nontrivial && ev.samples.len() < 3 && c.ids.len() <= 8 && c.ids.len() >= 4 && !c.updates.is_empty() {
                        ev.sample(json!({"layer": "index", "case": c}));
                    }
                    absorb(&mut ev, &info, &key);
                }
                Ok(Err(m)) | Err(m) => {
                    ev.frozen = true;
                    let min = shrink_index(c, &kf);
                    let msg = match catch(|| check_index(&min, &kf)) {
                        Ok(Err(m2)) | Err(m2) => m2,
                        _ => m,
                    };
                    failure = Some((json!({"layer": "index", "case": min}), msg));
                    break;
                }
            }
        }
    }

    // ---- layers 2 + 3: store and planner level
    if failure.is_none() {
        let n = args.tier.pick(1500usize, 30_000usize);
        let raws = generate(args.seed ^ 0x5eed_c28, n, &store_strategy());
        for (kind, medium, sels) in raws {
            let c = gen_store_case(kind, medium, &sels);
            ev.case();
            for (i, part) in c.tag.split('|').enumerate() {
                ev.class(&format!("gen:store:{}{part}", ["", "missing:", "values:"].get(i).copied().unwrap_or("")));
            }
            match catch(|| check_store(&c, &kf)) {
                Ok(Ok(info)) => {
                    let key = serde_json::to_string(&c).unwrap();
                    if info.nontrivial && ev.samples.len() < 6 && c.nodes.len() <= 7 && c.steps.len() >= 3 {
                        ev.sample(json!({"layer": "store", "case": c}));
                    }
                    absorb(&mut ev, &info, &key);
                }
                Ok(Err(m)) | Err(m) => {
                    ev.frozen = true;
                    let min = shrink_store(c, &kf);
                    let msg = match catch(|| check_store(&min, &kf)) {
                        Ok(Err(m2)) | Err(m2) => m2,
                        _ => m,
                    };
                    failure = Some((json!({"layer": "store", "case": min}), msg));
                    break;
                }
            }
        }
    }

    if let Some((case, msg)) = failure {
        report_violation(&mut ev, &case, &msg);
    }
    finish(&ev);
}
