//! C11 (unique constraints reject exactly the duplicates) and C29 (vector search returns
//! live, current, correctly ranked nodes) — DESIGN §4.
use proptest::prelude::*;
use samyama::graph::{GraphStore, PropertyValue};
use samyama::query::{QueryEngine, RecordBatch, Value};
use serde::{Deserialize, Serialize};
use serde_json::json;
use std::cell::RefCell;
use std::collections::{BTreeMap, BTreeSet};
use vcheck::*;

fn main() {
    let args = parse_args();
    quiet_panics();
    start_watchdog(args.tier.pick(900, 3600));
    match args.prop.as_str() {
        "C11" => c11(&args),
        "C29" => c29(&args),
        p => {
            eprintln!("vc_index does not serve {p}");
            std::process::exit(2)
        }
    }
}

/// outer Err = panic inside the engine, inner Err = engine refusal text
fn run_q(eng: &QueryEngine, store: &mut GraphStore, q: &str) -> Result<Result<RecordBatch, String>, String> {
    catch(|| eng.execute_mut(q, store, "default").map_err(|e| e.to_string()))
}

fn col(b: &RecordBatch, row: usize, c: &str) -> PropertyValue {
    match b.records[row].get(c) {
        Some(Value::Property(p)) => p.clone(),
        Some(Value::NodeRef(id)) | Some(Value::Node(id, _)) => PropertyValue::Integer(id.as_u64() as i64),
        _ => PropertyValue::Null,
    }
}

fn inconclusive(msg: &str) -> ! {
    eprintln!("INCONCLUSIVE: {msg}");
    std::process::exit(2)
}

// =======================================================================================
// C11

const VALS: [&str; 5] = ["1", "2", "3", "'a'", "'b'"];

fn decode_k(p: &PropertyValue) -> Result<Option<u8>, String> {
    match p {
        PropertyValue::Null => Ok(None),
        PropertyValue::Integer(i) if (1..=3).contains(i) => Ok(Some((*i - 1) as u8)),
        PropertyValue::String(s) if s == "a" => Ok(Some(3)),
        PropertyValue::String(s) if s == "b" => Ok(Some(4)),
        other => Err(format!("unexpected k value {other:?}")),
    }
}

#[derive(Clone, Debug, Serialize, Deserialize, PartialEq, Eq, Hash)]
enum COp {
    /// form 0: CREATE (:P {..}); 1: CREATE (:P:Q {..}); 2: MERGE (:P {..}) with a fresh uid
    CreateP { v: Option<u8>, form: u8 },
    CreateQ { v: Option<u8> },
    /// form 0: SET n.k = v; 1: SET n += {k: v}; 2: SET n = {uid: U, k: v}
    SetK { sel: u16, v: u8, form: u8 },
    SetNull { sel: u16 },
    /// form 0: REMOVE n.k; 1: SET n = {uid: U}
    RemoveK { sel: u16, form: u8 },
    Delete { sel: u16, detach: bool },
    AddP { sel: u16 },
    RemoveP { sel: u16 },
    Constraint { modern: bool },
}

#[derive(Clone, Copy, Debug, Default)]
struct CSw {
    /// KF-C11-1: the constraint index never releases a value
    never_release: bool,
    /// KF-C11-2: adding the constrained label is neither checked nor registered
    label_add_unchecked: bool,
}
impl CSw {
    fn any(&self) -> bool {
        self.never_release || self.label_add_unchecked
    }
}

#[derive(Clone, Debug, PartialEq)]
struct CNode {
    uid: i64,
    id: u64,
    p: bool,
    q: bool,
    k: Option<u8>,
}

#[derive(Clone, Debug)]
enum Intent {
    Create { p: bool, q: bool, k: Option<u8> },
    SetK { t: usize, v: u8 },
    Unset { t: usize },
    Delete { t: usize },
    AddP { t: usize },
    RemoveP { t: usize },
    Constraint,
}

#[derive(Clone, Debug, Default)]
struct CSim {
    nodes: Vec<CNode>,
    active: bool,
    next_uid: i64,
    // quirk state: what the pinned code keeps
    h: BTreeMap<u8, BTreeSet<u64>>,
    free: Vec<u64>,
    next_id: u64,
    quirk_ok: bool,
    released: BTreeSet<u8>,
    explained: BTreeSet<(i64, i64)>,
}

impl CSim {
    fn new() -> Self {
        CSim { next_uid: 1, next_id: 1, quirk_ok: true, ..Default::default() }
    }
    fn target(&self, sel: u16) -> Option<usize> {
        if self.nodes.is_empty() {
            None
        } else {
            Some(pick_idx(sel, self.nodes.len()))
        }
    }
    /// resolve an abstract op against the current state: statement text + intent
    fn plan(&self, op: &COp) -> Option<(String, Intent)> {
        let kv = |v: &Option<u8>| v.map(|v| format!(", k: {}", VALS[v as usize])).unwrap_or_default();
        match op {
            COp::CreateP { v, form } => {
                let u = self.next_uid;
                let s = match form % 3 {
                    0 => format!("CREATE (:P {{uid: {u}{}}})", kv(v)),
                    1 => format!("CREATE (:P:Q {{uid: {u}{}}})", kv(v)),
                    _ => format!("MERGE (n:P {{uid: {u}{}}})", kv(v)),
                };
                Some((s, Intent::Create { p: true, q: form % 3 == 1, k: *v }))
            }
            COp::CreateQ { v } => Some((format!("CREATE (:Q {{uid: {}{}}})", self.next_uid, kv(v)), Intent::Create { p: false, q: true, k: *v })),
            COp::SetK { sel, v, form } => {
                let t = self.target(*sel)?;
                let u = self.nodes[t].uid;
                let lit = VALS[*v as usize];
                let s = match form % 3 {
                    0 => format!("MATCH (n {{uid: {u}}}) SET n.k = {lit}"),
                    1 => format!("MATCH (n {{uid: {u}}}) SET n += {{k: {lit}}}"),
                    _ => format!("MATCH (n {{uid: {u}}}) SET n = {{uid: {u}, k: {lit}}}"),
                };
                Some((s, Intent::SetK { t, v: *v }))
            }
            COp::SetNull { sel } => {
                let t = self.target(*sel)?;
                Some((format!("MATCH (n {{uid: {}}}) SET n.k = null", self.nodes[t].uid), Intent::Unset { t }))
            }
            COp::RemoveK { sel, form } => {
                let t = self.target(*sel)?;
                let u = self.nodes[t].uid;
                let s = if form % 2 == 0 { format!("MATCH (n {{uid: {u}}}) REMOVE n.k") } else { format!("MATCH (n {{uid: {u}}}) SET n = {{uid: {u}}}") };
                Some((s, Intent::Unset { t }))
            }
            COp::Delete { sel, detach } => {
                let t = self.target(*sel)?;
                Some((format!("MATCH (n {{uid: {}}}) {}DELETE n", self.nodes[t].uid, if *detach { "DETACH " } else { "" }), Intent::Delete { t }))
            }
            COp::AddP { sel } => {
                let t = self.target(*sel)?;
                Some((format!("MATCH (n {{uid: {}}}) SET n:P", self.nodes[t].uid), Intent::AddP { t }))
            }
            COp::RemoveP { sel } => {
                let t = self.target(*sel)?;
                Some((format!("MATCH (n {{uid: {}}}) REMOVE n:P", self.nodes[t].uid), Intent::RemoveP { t }))
            }
            COp::Constraint { modern } => {
                if self.active {
                    return None;
                }
                let s = if *modern { "CREATE CONSTRAINT FOR (n:P) REQUIRE n.k IS UNIQUE" } else { "CREATE CONSTRAINT ON (n:P) ASSERT n.k IS UNIQUE" };
                Some((s.to_string(), Intent::Constraint))
            }
        }
    }
    fn other_p_holds(&self, except: Option<usize>, v: u8) -> bool {
        self.nodes.iter().enumerate().any(|(i, n)| Some(i) != except && n.p && n.k == Some(v))
    }
    fn dup_pairs(&self) -> Vec<(i64, i64)> {
        let mut out = Vec::new();
        for i in 0..self.nodes.len() {
            for j in i + 1..self.nodes.len() {
                let (a, b) = (&self.nodes[i], &self.nodes[j]);
                if a.p && b.p && a.k.is_some() && a.k == b.k {
                    out.push((a.uid, b.uid));
                }
            }
        }
        out
    }
    /// the property's answer: must this write be refused?
    fn strict_refuse(&self, it: &Intent) -> bool {
        match it {
            Intent::Create { p, k: Some(v), .. } => self.active && *p && self.other_p_holds(None, *v),
            Intent::SetK { t, v } => self.active && self.nodes[*t].p && self.nodes[*t].k != Some(*v) && self.other_p_holds(Some(*t), *v),
            Intent::AddP { t } => match self.nodes[*t].k {
                Some(v) => self.active && !self.nodes[*t].p && self.other_p_holds(Some(*t), v),
                None => false,
            },
            Intent::Constraint => !self.dup_pairs().is_empty(),
            _ => false,
        }
    }
    fn peek_new_id(&self) -> u64 {
        self.free.last().copied().unwrap_or(self.next_id)
    }
    fn held_by_other(&self, v: u8, id: u64) -> bool {
        self.h.get(&v).map(|s| s.iter().any(|x| *x != id)).unwrap_or(false)
    }
    /// the answer of the code as modelled under the active switches
    fn quirk_refuse(&self, it: &Intent, sw: CSw) -> bool {
        if !sw.any() {
            return self.strict_refuse(it);
        }
        match it {
            Intent::Create { p, k: Some(v), .. } => self.active && *p && self.held_by_other(*v, self.peek_new_id()),
            Intent::SetK { t, v } => self.active && self.nodes[*t].p && self.held_by_other(*v, self.nodes[*t].id),
            Intent::AddP { t } => {
                if sw.label_add_unchecked {
                    false
                } else {
                    match self.nodes[*t].k {
                        Some(v) => self.active && !self.nodes[*t].p && self.held_by_other(v, self.nodes[*t].id),
                        None => false,
                    }
                }
            }
            Intent::Constraint => !self.dup_pairs().is_empty(),
            _ => false,
        }
    }
    fn release(&mut self, v: Option<u8>, id: u64, sw: CSw) {
        if let Some(v) = v {
            self.released.insert(v);
            if !sw.never_release {
                if let Some(s) = self.h.get_mut(&v) {
                    s.remove(&id);
                    if s.is_empty() {
                        self.h.remove(&v);
                    }
                }
            }
        }
    }
    /// does this write request a value that was released earlier, under an active constraint?
    fn requests_released(&self, it: &Intent) -> bool {
        if !self.active {
            return false;
        }
        match it {
            Intent::Create { p: true, k: Some(v), .. } => self.released.contains(v),
            Intent::SetK { t, v } => self.nodes[*t].p && self.released.contains(v),
            Intent::AddP { t } => !self.nodes[*t].p && self.nodes[*t].k.map(|v| self.released.contains(&v)).unwrap_or(false),
            _ => false,
        }
    }
    /// apply the actual outcome of a statement
    fn apply(&mut self, it: &Intent, accepted: bool, sw: CSw) {
        match it {
            Intent::Create { p, q, k } => {
                let id = if let Some(x) = self.free.pop() {
                    x
                } else {
                    self.next_id += 1;
                    self.next_id - 1
                };
                let uid = self.next_uid;
                self.next_uid += 1;
                if accepted {
                    if *p && self.active {
                        if let Some(v) = k {
                            self.h.entry(*v).or_default().insert(id);
                        }
                    }
                    self.nodes.push(CNode { uid, id, p: *p, q: *q, k: *k });
                } else {
                    self.free.push(id);
                }
            }
            Intent::SetK { t, v } => {
                if accepted {
                    let n = self.nodes[*t].clone();
                    if n.p && n.k != Some(*v) {
                        self.release(n.k, n.id, sw);
                    }
                    if n.p && self.active {
                        self.h.entry(*v).or_default().insert(n.id);
                    }
                    self.nodes[*t].k = Some(*v);
                }
            }
            Intent::Unset { t } => {
                if accepted {
                    let n = self.nodes[*t].clone();
                    if n.p {
                        self.release(n.k, n.id, sw);
                    }
                    self.nodes[*t].k = None;
                }
            }
            Intent::Delete { t } => {
                if accepted {
                    let n = self.nodes.remove(*t);
                    if n.p {
                        self.release(n.k, n.id, sw);
                    }
                    self.free.push(n.id);
                }
            }
            Intent::AddP { t } => {
                if accepted {
                    let n = self.nodes[*t].clone();
                    if !n.p && self.active && !sw.label_add_unchecked {
                        if let Some(v) = n.k {
                            self.h.entry(v).or_default().insert(n.id);
                        }
                    }
                    self.nodes[*t].p = true;
                }
            }
            Intent::RemoveP { t } => {
                if accepted {
                    let n = self.nodes[*t].clone();
                    if n.p {
                        self.release(n.k, n.id, sw);
                    }
                    self.nodes[*t].p = false;
                }
            }
            Intent::Constraint => {
                if accepted {
                    self.active = true;
                    for n in self.nodes.clone() {
                        if let (true, Some(v)) = (n.p, n.k) {
                            self.h.entry(v).or_default().insert(n.id);
                        }
                    }
                }
            }
        }
    }
}

#[derive(Default, Debug)]
struct RunOut {
    nontrivial: bool,
    classes: Vec<String>,
    kf: Vec<&'static str>,
    refusals: u64,
    trace: Vec<String>,
}

fn c11_run(eng: &QueryEngine, ops: &[COp], sw: CSw) -> Result<RunOut, String> {
    let mut store = GraphStore::new();
    let mut sim = CSim::new();
    let mut out = RunOut::default();
    macro_rules! fail {
        ($($a:tt)*) => {
            return Err(format!("{} | history: {}", format!($($a)*), out.trace.join(" ; ")))
        };
    }
    for op in ops {
        let Some((stmt, it)) = sim.plan(op) else {
            continue;
        };
        let strict = sim.strict_refuse(&it);
        let quirk = if sim.quirk_ok { sim.quirk_refuse(&it, sw) } else { strict };
        let requested_released = sim.requests_released(&it);
        let res = match run_q(eng, &mut store, &stmt) {
            Ok(r) => r,
            Err(p) => {
                out.trace.push(format!("{stmt} => PANIC"));
                fail!("panic in `{stmt}`: {p}");
            }
        };
        let accepted = res.is_ok();
        out.trace.push(format!("{stmt} => {}", if accepted { "ok" } else { "refused" }));
        if let Err(e) = &res {
            out.refusals += 1;
            if !e.contains("onstraint") {
                fail!("`{stmt}` failed with an error that is not a constraint refusal: {e}");
            }
        }
        if requested_released {
            out.nontrivial = true;
            out.classes.push("request_of_released_value".into());
        }
        let mut explain_dups = false;
        if accepted == strict {
            // deviation from the property; tolerated only if an enabled matcher predicts exactly it
            let explained = sw.any() && sim.quirk_ok && accepted != quirk && ((!accepted && sw.never_release) || (accepted && sw.label_add_unchecked));
            if !explained {
                if accepted {
                    fail!("`{stmt}` was accepted although it gives two live :P nodes the same k (constraint active)");
                } else {
                    fail!("`{stmt}` was refused ({}) although no other live :P node holds that k", res.err().unwrap_or_default());
                }
            }
            if accepted {
                out.kf.push("KF-C11-2");
                explain_dups = true;
            } else {
                out.kf.push("KF-C11-1");
            }
        } else if accepted == quirk {
            out.classes.push("quirk_model_predicted_deviation_engine_conformed".into());
        }
        out.classes.push(format!("{}_{}", match it {
            Intent::Create { .. } => "create",
            Intent::SetK { .. } => "set",
            Intent::Unset { .. } => "unset",
            Intent::Delete { .. } => "delete",
            Intent::AddP { .. } => "add_label",
            Intent::RemoveP { .. } => "remove_label",
            Intent::Constraint => "constraint",
        }, if accepted { "accepted" } else { "refused" }));
        sim.apply(&it, accepted, sw);
        if explain_dups {
            for p in sim.dup_pairs() {
                sim.explained.insert(p);
            }
        }
        // read the store back: the accepted write took effect / the refused one changed nothing
        let rb = match run_q(eng, &mut store, "MATCH (n) RETURN n.uid, id(n), labels(n), n.k") {
            Ok(Ok(b)) => b,
            Ok(Err(e)) | Err(e) => fail!("read-back query failed: {e}"),
        };
        let mut rows: Vec<(i64, u64, bool, bool, Option<u8>)> = Vec::new();
        for r in 0..rb.records.len() {
            let uid = match col(&rb, r, "n.uid") {
                PropertyValue::Integer(i) => i,
                o => fail!("after `{stmt}` a node without integer uid is visible: {o:?}"),
            };
            let id = match col(&rb, r, "id(n)") {
                PropertyValue::Integer(i) => i as u64,
                o => fail!("id(n) = {o:?}"),
            };
            let labels: Vec<String> = match col(&rb, r, "labels(n)") {
                PropertyValue::Array(a) => a.iter().filter_map(|x| if let PropertyValue::String(s) = x { Some(s.clone()) } else { None }).collect(),
                _ => vec![],
            };
            let k = match decode_k(&col(&rb, r, "n.k")) {
                Ok(k) => k,
                Err(e) => fail!("after `{stmt}`: {e}"),
            };
            rows.push((uid, id, labels.iter().any(|l| l == "P"), labels.iter().any(|l| l == "Q"), k));
        }
        rows.sort();
        let want: Vec<(i64, bool, bool, Option<u8>)> = sim.nodes.iter().map(|n| (n.uid, n.p, n.q, n.k)).collect();
        let got: Vec<(i64, bool, bool, Option<u8>)> = rows.iter().map(|r| (r.0, r.2, r.3, r.4)).collect();
        if want != got {
            fail!("after `{stmt}` ({}) live nodes (uid,P,Q,k) = {got:?}, reference = {want:?}", if accepted { "accepted" } else { "refused" });
        }
        for (n, r) in sim.nodes.iter_mut().zip(rows.iter()) {
            if n.id != r.1 {
                // id allocation differs from the modelled free list: the quirk model is not exact here
                sim.quirk_ok = false;
                n.id = r.1;
            }
        }
        // the invariant, by an independent label scan
        if sim.active {
            let lb = match run_q(eng, &mut store, "MATCH (n:P) RETURN n.uid, n.k") {
                Ok(Ok(b)) => b,
                Ok(Err(e)) | Err(e) => fail!("label scan failed: {e}"),
            };
            let mut seen: Vec<(i64, Option<u8>)> = Vec::new();
            for r in 0..lb.records.len() {
                let uid = if let PropertyValue::Integer(i) = col(&lb, r, "n.uid") { i } else { -1 };
                let k = decode_k(&col(&lb, r, "n.k")).unwrap_or(None);
                seen.push((uid, k));
            }
            seen.sort();
            let wantp: Vec<(i64, Option<u8>)> = sim.nodes.iter().filter(|n| n.p).map(|n| (n.uid, n.k)).collect();
            if seen != wantp {
                fail!("after `{stmt}` MATCH (n:P) sees {seen:?}, reference {wantp:?}");
            }
            for i in 0..seen.len() {
                for j in i + 1..seen.len() {
                    if seen[i].1.is_some() && seen[i].1 == seen[j].1 && !sim.explained.contains(&(seen[i].0, seen[j].0)) {
                        fail!("after `{stmt}` two live :P nodes (uid {} and {}) hold the same k under an active constraint", seen[i].0, seen[j].0);
                    }
                }
            }
        }
    }
    Ok(out)
}

/// values biased towards 1 and 2 so that releases and re-requests of the same value are common
fn cval() -> impl Strategy<Value = u8> {
    prop_oneof![4 => Just(0u8), 3 => Just(1u8), 1 => Just(2u8), 1 => Just(3u8), 1 => Just(4u8)]
}

fn cop_strategy() -> impl Strategy<Value = COp> {
    prop_oneof![
        5 => (proptest::option::weighted(0.85, cval()), 0u8..3).prop_map(|(v, form)| COp::CreateP { v, form }),
        1 => proptest::option::weighted(0.85, cval()).prop_map(|v| COp::CreateQ { v }),
        5 => (any::<u16>(), cval(), 0u8..3).prop_map(|(sel, v, form)| COp::SetK { sel, v, form }),
        1 => any::<u16>().prop_map(|sel| COp::SetNull { sel }),
        1 => (any::<u16>(), 0u8..2).prop_map(|(sel, form)| COp::RemoveK { sel, form }),
        2 => (any::<u16>(), any::<bool>()).prop_map(|(sel, detach)| COp::Delete { sel, detach }),
        1 => any::<u16>().prop_map(|sel| COp::AddP { sel }),
        1 => any::<u16>().prop_map(|sel| COp::RemoveP { sel }),
        1 => any::<bool>().prop_map(|modern| COp::Constraint { modern }),
    ]
}

/// history = ops with one constraint creation inserted at a random position
fn chist_strategy() -> impl Strategy<Value = Vec<COp>> {
    (proptest::collection::vec(cop_strategy(), 1..12), any::<u16>(), any::<bool>()).prop_map(|(mut ops, pos, modern)| {
        let at = pick_idx(pos, ops.len() + 1);
        ops.insert(at, COp::Constraint { modern });
        ops
    })
}

fn sel_for(t: usize, len: usize) -> u16 {
    (((t as u32) << 16).div_ceil(len as u32)) as u16
}

fn c11_witness_active(eng: &QueryEngine, kf: &Known, ev: &mut Evidence, id: &str) -> bool {
    let Some(case) = witness_case(kf, id) else {
        return false;
    };
    let ops: Vec<COp> = match serde_json::from_value(case["ops"].clone()) {
        Ok(o) => o,
        Err(_) => return false,
    };
    let still = c11_run(eng, &ops, CSw::default()).is_err();
    kf.witness_result(ev, id, still);
    kf.active(id)
}

fn c11(args: &Args) {
    let mut ev = Evidence::new(
        args,
        "exploration",
        "histories of single-row Cypher statements (CREATE/MERGE with or without k, SET k three spellings, SET k = null, REMOVE k, DELETE/DETACH DELETE, SET/REMOVE label :P, CREATE CONSTRAINT at a random position) over label P with a uniqueness constraint on k and values {1,2,3,'a','b'}; each statement's accept/refuse is compared with a reference multiset of live (:P,k) values and the store is read back after every statement (no two live :P nodes share k). Exhaustive to the stated depth over 2 node slots x 2 values plus random histories up to 12 statements. Non-trivial = under an active constraint a write requests a value that an earlier statement released (changed, removed, node deleted, label removed); distinct = distinct op sequences.",
    );
    ev.assume("k = null counts as 'no value'; a write that re-states a value the node already holds creates no new pair and must be accepted");
    let kf = Known::load(args);
    let eng = QueryEngine::new();
    let sw = CSw { never_release: c11_witness_active(&eng, &kf, &mut ev, "KF-C11-1"), label_add_unchecked: c11_witness_active(&eng, &kf, &mut ev, "KF-C11-2") };

    let record = |ev: &mut Evidence, ops: &[COp], o: &RunOut, class: &str| {
        ev.class(class);
        for c in &o.classes {
            ev.class(c);
        }
        for k in &o.kf {
            ev.kf_hit(k);
        }
        for _ in 0..o.refusals {
            ev.refusal();
        }
        if o.nontrivial {
            ev.nontrivial(ops);
            ev.class(&format!("{class}_nontrivial"));
            if ev.want_sample() && ops.len() >= 4 {
                ev.sample(json!({"ops": ops, "statements": o.trace}));
            }
        }
    };

    if let Some(p) = &args.replay {
        let case = load_replay(p);
        let ops: Vec<COp> = serde_json::from_value(case["ops"].clone()).expect("replay case");
        ev.case();
        match c11_run(&eng, &ops, sw) {
            Ok(o) => {
                println!("replay: no unlisted violation; known findings matched: {:?} ({})", o.kf, o.trace.join(" ; "));
                record(&mut ev, &ops, &o, "replay");
            }
            Err(m) => {
                report_violation(&mut ev, &json!({"ops": ops}), &m);
            }
        }
        ev.nontrivial(&ops);
        ev.nontrivial(&"replay");
        ev.sample(json!({"ops": ops}));
        finish(&ev);
    }

    let mut failure: Option<(Vec<COp>, String)> = None;
    for (p, case) in corpus_cases("C11") {
        let ops: Vec<COp> = serde_json::from_value(case["ops"].clone()).expect("corpus case");
        ev.case();
        match c11_run(&eng, &ops, sw) {
            Ok(o) => record(&mut ev, &ops, &o, "corpus"),
            Err(m) => {
                failure = Some((ops, format!("{m} (corpus {})", p.display())));
                break;
            }
        }
    }

    // bounded-exhaustive: every applicable sequence of exactly `depth` statements
    let depth = args.tier.pick(5usize, 6usize);
    if failure.is_none() {
        fn alphabet(sim: &CSim) -> Vec<COp> {
            let mut a = Vec::new();
            let live = sim.nodes.len();
            if live < 2 {
                for v in 0..2u8 {
                    a.push(COp::CreateP { v: Some(v), form: 0 });
                    a.push(COp::CreateQ { v: Some(v) });
                }
                a.push(COp::CreateP { v: None, form: 0 });
            }
            for t in 0..live {
                let sel = sel_for(t, live);
                for v in 0..2u8 {
                    a.push(COp::SetK { sel, v, form: 0 });
                }
                a.push(COp::SetNull { sel });
                a.push(COp::RemoveK { sel, form: 0 });
                a.push(COp::Delete { sel, detach: false });
                a.push(COp::AddP { sel });
                a.push(COp::RemoveP { sel });
            }
            if !sim.active {
                a.push(COp::Constraint { modern: false });
            }
            a
        }
        struct Ctx<'a> {
            depth: usize,
            eng: &'a QueryEngine,
            sw: CSw,
            leaves: u64,
        }
        fn dfs(cx: &mut Ctx, stack: &mut Vec<COp>, sim: &CSim, ev: &mut Evidence, record: &dyn Fn(&mut Evidence, &[COp], &RunOut, &str), failure: &mut Option<(Vec<COp>, String)>) {
            if failure.is_some() {
                return;
            }
            if stack.len() == cx.depth {
                cx.leaves += 1;
                ev.case();
                match c11_run(cx.eng, stack, cx.sw) {
                    Ok(o) => record(ev, stack, &o, "exhaustive"),
                    Err(m) => *failure = Some((stack.clone(), m)),
                }
                return;
            }
            for op in alphabet(sim) {
                let Some((_, it)) = sim.plan(&op) else { continue };
                let mut s2 = sim.clone();
                let acc = !s2.strict_refuse(&it);
                s2.apply(&it, acc, CSw::default());
                stack.push(op);
                dfs(cx, stack, &s2, ev, record, failure);
                stack.pop();
                if failure.is_some() {
                    return;
                }
            }
        }
        let mut cx = Ctx { depth, eng: &eng, sw, leaves: 0 };
        dfs(&mut cx, &mut Vec::new(), &CSim::new(), &mut ev, &record, &mut failure);
        ev.exhaustive = Some(failure.is_none());
        ev.set("exhaustive_bound", json!({"statements": depth, "node_slots": 2, "values": 2, "sequences": cx.leaves}));
    }

    if failure.is_none() {
        let n = args.tier.pick(10_000u32, 300_000u32);
        let strat = chist_strategy();
        let evc = RefCell::new(&mut ev);
        let res = search(args.seed, n, &strat, |ops| {
            let mut e = evc.borrow_mut();
            e.case();
            match c11_run(&eng, ops, sw) {
                Ok(o) => {
                    record(&mut **e, ops, &o, "random");
                    Ok(())
                }
                Err(m) => {
                    e.frozen = true;
                    Err(m)
                }
            }
        });
        drop(evc);
        if let Some((ops, msg)) = res {
            failure = Some((ops, msg));
        }
    }

    if let Some((ops, msg)) = failure {
        ev.frozen = true;
        let min = shrink_vec(ops, &|cand: &[COp]| c11_run(&eng, cand, sw).is_err());
        let msg2 = c11_run(&eng, &min, sw).err().unwrap_or(msg);
        report_violation(&mut ev, &json!({"ops": min}), &msg2);
    }
    finish(&ev);
}

// =======================================================================================
// C29

const LABELS: [&str; 2] = ["D", "E"];
const EXACT_SEARCH_MAX: usize = 128;
const TOL: f64 = 1e-5;

/// vector components in quarter units (dyadic, exact in f32)
fn comp_strategy() -> impl Strategy<Value = i8> {
    prop_oneof![3 => Just(0i8), 3 => Just(4i8), 2 => Just(-4i8), 2 => Just(2i8), 1 => Just(-2i8), 2 => Just(8i8), 1 => Just(-8i8), 1 => Just(1i8), 1 => Just(6i8), 1 => Just(12i8)]
}
fn vec_strategy() -> impl Strategy<Value = Vec<i8>> {
    prop_oneof![
        12 => proptest::collection::vec(comp_strategy(), 4),
        1 => Just(vec![0i8, 0, 0, 0]),
    ]
}

#[derive(Clone, Debug, Serialize, Deserialize, PartialEq, Eq, Hash)]
enum VOp {
    /// metric 0 = cosine, 1 = l2
    CreateIndex { which: u8, metric: u8 },
    /// labels: bit 0 = D, bit 1 = E; ints: write integral components without a decimal point
    Create { labels: u8, vec: Option<Vec<i8>>, ints: bool },
    /// `n` nodes with label `which`, vectors derived from `salt`
    Bulk { n: u16, which: u8, salt: u16 },
    /// copy: take the vector of another live node instead of `vec`
    SetVec { sel: u16, vec: Vec<i8>, copy: Option<u16> },
    /// form 0 REMOVE n.v; 1 SET n.v = null; 2 SET n.v = 'x'
    Unset { sel: u16, form: u8 },
    AddLabel { sel: u16, which: u8 },
    RemoveLabel { sel: u16, which: u8 },
    Delete { sel: u16 },
    /// route 0: CALL .. YIELD node, score; 1: .. RETURN id(node), node.uid, score; 2: VectorIndexManager::search
    Search { which: u8, q: Vec<i8>, copy: Option<u16>, k: u16, route: u8 },
}

#[derive(Clone, Debug, Serialize, Deserialize, PartialEq, Eq, Hash)]
struct VCase {
    dims: u8,
    ops: Vec<VOp>,
}

#[derive(Clone, Debug)]
struct VNode {
    uid: i64,
    id: u64,
    labels: u8,
    vec: Option<Vec<f32>>,
}

/// switch bits: 1 = KF-C29-1 update appends, 2 = KF-C29-2 nothing is ever removed, 4 = KF-C29-3 l2 ranks by cosine
const KF29: [(&str, u8); 3] = [("KF-C29-1", 1), ("KF-C29-2", 2), ("KF-C29-3", 4)];

#[derive(Clone, Debug)]
struct IdxModel {
    metric: u8,
    /// index entries (engine node id, vector) as the code keeps them under switch mask m & 3
    entries: [Vec<(u64, Vec<f32>)>; 4],
}

fn to_f32(v: &[i8], dims: usize) -> Vec<f32> {
    v.iter().take(dims).map(|q| *q as f32 / 4.0).collect()
}
fn lit(v: &[f32], ints: bool) -> String {
    let parts: Vec<String> = v.iter().map(|f| if ints && f.fract() == 0.0 { format!("{}", *f as i64) } else { format!("{:?}", *f as f64) }).collect();
    format!("[{}]", parts.join(", "))
}
fn is_zero(v: &[f32]) -> bool {
    v.iter().all(|x| *x == 0.0)
}
/// declared-metric distance in f64; cosine with a zero vector follows the code's convention (1.0)
/// and is flagged as undefined by the caller where it matters
fn dist(metric_cos: bool, a: &[f32], b: &[f32]) -> f64 {
    if metric_cos {
        let (mut dot, mut na, mut nb) = (0f64, 0f64, 0f64);
        for (x, y) in a.iter().zip(b.iter()) {
            dot += *x as f64 * *y as f64;
            na += *x as f64 * *x as f64;
            nb += *y as f64 * *y as f64;
        }
        if na <= 0.0 || nb <= 0.0 {
            return 1.0;
        }
        (1.0 - (dot / (na.sqrt() * nb.sqrt())).clamp(-1.0, 1.0)).max(0.0)
    } else {
        a.iter().zip(b.iter()).map(|(x, y)| (*x as f64 - *y as f64).powi(2)).sum::<f64>().sqrt()
    }
}

/// Does the hit list equal what an index holding `entries` answers under the metric?
/// `strict_cos_undefined`: the declared metric is cosine and a zero vector is involved, so the
/// declared distance is undefined — only validity and size are judged.
fn judge(entries: &[(u64, Vec<f32>)], metric_cos: bool, q: &[f32], k: usize, hits: &[u64], skip_order: bool) -> Result<(), String> {
    let n = entries.len();
    let exact = n <= EXACT_SEARCH_MAX;
    let mut per: BTreeMap<u64, Vec<(f64, bool)>> = BTreeMap::new();
    let mut all: Vec<f64> = Vec::with_capacity(n);
    for (id, v) in entries {
        let d = dist(metric_cos, q, v);
        per.entry(*id).or_default().push((d, false));
        all.push(d);
    }
    for v in per.values_mut() {
        v.sort_by(|a, b| a.0.partial_cmp(&b.0).unwrap());
    }
    let mut seq: Vec<f64> = Vec::new();
    let mut last = f64::NEG_INFINITY;
    for (pos, id) in hits.iter().enumerate() {
        let Some(es) = per.get_mut(id) else {
            return Err(format!("hit #{pos} (engine node id {id}) has no entry: not a live node carrying the label and a vector at the property"));
        };
        // smallest unused entry that keeps the sequence ordered
        let pickable = es.iter_mut().find(|e| !e.1 && (skip_order || e.0 >= last - TOL));
        match pickable {
            Some(e) => {
                e.1 = true;
                last = e.0;
                seq.push(e.0);
            }
            None => {
                if es.iter().all(|e| e.1) {
                    return Err(format!("engine node id {id} is returned more often (hit #{pos}) than it has entries"));
                }
                return Err(format!("hits are not ordered by distance: hit #{pos} (engine node id {id}) lies at {:?}, previous hit at {last}", es.iter().filter(|e| !e.1).map(|e| e.0).collect::<Vec<_>>()));
            }
        }
    }
    if hits.len() > k.min(n) {
        return Err(format!("{} hits for k = {k} over {n} entries", hits.len()));
    }
    if exact {
        if hits.len() != k.min(n) {
            return Err(format!("{} hits, expected min(k = {k}, {n} entries) on an exactly searched index", hits.len()));
        }
        if !skip_order {
            all.sort_by(|a, b| a.partial_cmp(b).unwrap());
            let mut s = seq.clone();
            s.sort_by(|a, b| a.partial_cmp(b).unwrap());
            for (i, d) in s.iter().enumerate() {
                if (d - all[i]).abs() > TOL {
                    return Err(format!("not the k nearest: sorted hit distances {s:?}, nearest available {:?}", &all[..s.len()]));
                }
            }
        }
    }
    Ok(())
}

#[derive(Default)]
struct VSim {
    dims: usize,
    nodes: Vec<VNode>,
    next_uid: i64,
    idx: [Option<IdxModel>; 2],
    mutated: bool,
}

impl VSim {
    fn write_event(&mut self, id: u64, which: usize, v: &[f32]) {
        if let Some(ix) = self.idx[which].as_mut() {
            for m in 0..4 {
                if m & 1 == 0 {
                    ix.entries[m].retain(|e| e.0 != id);
                }
                ix.entries[m].push((id, v.to_vec()));
            }
        }
    }
    fn removal_event(&mut self, id: u64, which: usize) {
        if let Some(ix) = self.idx[which].as_mut() {
            for m in 0..4 {
                if m & 2 == 0 {
                    ix.entries[m].retain(|e| e.0 != id);
                }
            }
        }
    }
    fn rebuild_all(&mut self) {
        for which in 0..2 {
            let live: Vec<(u64, Vec<f32>)> = self.nodes.iter().filter(|n| n.labels & (1 << which) != 0).filter_map(|n| n.vec.clone().map(|v| (n.id, v))).collect();
            if let Some(ix) = self.idx[which].as_mut() {
                for m in 0..4 {
                    ix.entries[m] = live.clone();
                }
            }
        }
    }
    fn strict_entries(&self, which: usize) -> Vec<(u64, Vec<f32>)> {
        self.nodes.iter().filter(|n| n.labels & (1 << which) != 0).filter_map(|n| n.vec.clone().map(|v| (n.id, v))).collect()
    }
}

fn c29_run(eng: &QueryEngine, case: &VCase, active: u8) -> Result<RunOut, String> {
    let mut store = GraphStore::new();
    let dims = case.dims.clamp(2, 4) as usize;
    let mut sim = VSim { dims, next_uid: 1, ..Default::default() };
    let mut out = RunOut::default();
    macro_rules! fail {
        ($($a:tt)*) => {{
            let t = &out.trace;
            let shown = if t.len() > 40 { format!("... {}", t[t.len() - 40..].join(" ; ")) } else { t.join(" ; ") };
            return Err(format!("{} | history (dims {dims}): {}", format!($($a)*), shown))
        }};
    }
    // a statement that the property does not talk about must simply work; if it does not the
    // check cannot judge the history
    macro_rules! must {
        ($stmt:expr) => {{
            let s: String = $stmt;
            match run_q(eng, &mut store, &s) {
                Ok(Ok(b)) => {
                    out.trace.push(s);
                    b
                }
                Ok(Err(e)) => return Err(format!("INCONCLUSIVE: `{s}` refused: {e}")),
                Err(p) => {
                    out.trace.push(s.clone());
                    fail!("panic in `{s}`: {p}")
                }
            }
        }};
    }
    for op in &case.ops {
        match op {
            VOp::CreateIndex { which, metric } => {
                let w = (*which % 2) as usize;
                let m = *metric % 2;
                must!(format!("CREATE VECTOR INDEX FOR (n:{}) ON (n.v) OPTIONS {{dimensions: {dims}, similarity: '{}'}}", LABELS[w], if m == 0 { "cosine" } else { "l2" }));
                sim.idx[w] = Some(IdxModel { metric: m, entries: Default::default() });
                sim.rebuild_all();
                out.classes.push(format!("create_index_{}", if m == 0 { "cosine" } else { "l2" }));
            }
            VOp::Create { labels, vec, ints } => {
                let lab = labels % 4;
                let uid = sim.next_uid;
                sim.next_uid += 1;
                let ls: String = (0..2).filter(|w| lab & (1 << w) != 0).map(|w| format!(":{}", LABELS[w])).collect();
                let v = vec.as_ref().map(|v| to_f32(v, dims));
                let vs = v.as_ref().map(|v| format!(", v: {}", lit(v, *ints))).unwrap_or_default();
                must!(format!("CREATE ({ls} {{uid: {uid}{vs}}})"));
                let b = must!(format!("MATCH (n {{uid: {uid}}}) RETURN id(n)"));
                if b.records.len() != 1 {
                    return Err(format!("INCONCLUSIVE: created node uid {uid} is seen {} times", b.records.len()));
                }
                out.trace.pop();
                let id = if let PropertyValue::Integer(i) = col(&b, 0, "id(n)") { i as u64 } else { return Err("INCONCLUSIVE: id(n) not an integer".into()) };
                sim.nodes.push(VNode { uid, id, labels: lab, vec: v.clone() });
                if let Some(v) = &v {
                    for w in 0..2 {
                        if lab & (1 << w) != 0 {
                            sim.write_event(id, w, v);
                        }
                    }
                }
            }
            VOp::Bulk { n, which, salt } => {
                let w = (*which % 2) as usize;
                let n = (*n as usize).clamp(1, 320);
                let comps = [0f32, 1.0, -1.0, 0.5, 2.0, -0.5, 0.25, 1.5, -2.0, 3.0];
                let first_uid = sim.next_uid;
                let mut x = *salt as u32 + 1;
                for _ in 0..n {
                    let uid = sim.next_uid;
                    sim.next_uid += 1;
                    let v: Vec<f32> = (0..dims)
                        .map(|_| {
                            x = x.wrapping_mul(1103515245).wrapping_add(12345) & 0x7fff_ffff;
                            comps[((x >> 16) % comps.len() as u32) as usize]
                        })
                        .collect();
                    let s = format!("CREATE (:{} {{uid: {uid}, v: {}}})", LABELS[w], lit(&v, false));
                    match run_q(eng, &mut store, &s) {
                        Ok(Ok(_)) => {}
                        Ok(Err(e)) => return Err(format!("INCONCLUSIVE: `{s}` refused: {e}")),
                        Err(p) => fail!("panic in `{s}`: {p}"),
                    }
                    sim.nodes.push(VNode { uid, id: u64::MAX, labels: 1 << w, vec: Some(v) });
                }
                out.trace.push(format!("<bulk: {n} x CREATE (:{} {{uid, v}}) salt {salt}>", LABELS[w]));
                let b = must!("MATCH (n) RETURN n.uid, id(n)".to_string());
                out.trace.pop();
                let mut ids: BTreeMap<i64, u64> = BTreeMap::new();
                for r in 0..b.records.len() {
                    if let (PropertyValue::Integer(u), PropertyValue::Integer(i)) = (col(&b, r, "n.uid"), col(&b, r, "id(n)")) {
                        ids.insert(u, i as u64);
                    }
                }
                let fresh: Vec<(u64, Vec<f32>)> = {
                    let mut f = Vec::new();
                    for nd in sim.nodes.iter_mut().filter(|nd| nd.uid >= first_uid) {
                        match ids.get(&nd.uid) {
                            Some(i) => nd.id = *i,
                            None => return Err(format!("INCONCLUSIVE: bulk node uid {} not visible", nd.uid)),
                        }
                        f.push((nd.id, nd.vec.clone().unwrap()));
                    }
                    f
                };
                for (id, v) in fresh {
                    sim.write_event(id, w, &v);
                }
                out.classes.push("bulk".into());
            }
            VOp::SetVec { sel, vec, copy } => {
                if sim.nodes.is_empty() {
                    continue;
                }
                let t = pick_idx(*sel, sim.nodes.len());
                let v = match copy.and_then(|c| sim.nodes[pick_idx(c, sim.nodes.len())].vec.clone()) {
                    Some(v) => v,
                    None => to_f32(vec, dims),
                };
                must!(format!("MATCH (n {{uid: {}}}) SET n.v = {}", sim.nodes[t].uid, lit(&v, false)));
                sim.nodes[t].vec = Some(v.clone());
                let (id, lab) = (sim.nodes[t].id, sim.nodes[t].labels);
                for w in 0..2 {
                    if lab & (1 << w) != 0 {
                        sim.write_event(id, w, &v);
                    }
                }
                sim.mutated = true;
                out.classes.push("set_vector".into());
            }
            VOp::Unset { sel, form } => {
                if sim.nodes.is_empty() {
                    continue;
                }
                let t = pick_idx(*sel, sim.nodes.len());
                let u = sim.nodes[t].uid;
                must!(match form % 3 {
                    0 => format!("MATCH (n {{uid: {u}}}) REMOVE n.v"),
                    1 => format!("MATCH (n {{uid: {u}}}) SET n.v = null"),
                    _ => format!("MATCH (n {{uid: {u}}}) SET n.v = 'x'"),
                });
                sim.nodes[t].vec = None;
                let (id, lab) = (sim.nodes[t].id, sim.nodes[t].labels);
                for w in 0..2 {
                    if lab & (1 << w) != 0 {
                        sim.removal_event(id, w);
                    }
                }
                sim.mutated = true;
                out.classes.push("unset_vector".into());
            }
            VOp::AddLabel { sel, which } => {
                if sim.nodes.is_empty() {
                    continue;
                }
                let t = pick_idx(*sel, sim.nodes.len());
                let w = (*which % 2) as usize;
                must!(format!("MATCH (n {{uid: {}}}) SET n:{}", sim.nodes[t].uid, LABELS[w]));
                sim.nodes[t].labels |= 1 << w;
                if let Some(v) = sim.nodes[t].vec.clone() {
                    let id = sim.nodes[t].id;
                    sim.write_event(id, w, &v);
                }
                sim.mutated = true;
                out.classes.push("add_label".into());
            }
            VOp::RemoveLabel { sel, which } => {
                if sim.nodes.is_empty() {
                    continue;
                }
                let t = pick_idx(*sel, sim.nodes.len());
                let w = (*which % 2) as usize;
                must!(format!("MATCH (n {{uid: {}}}) REMOVE n:{}", sim.nodes[t].uid, LABELS[w]));
                if sim.nodes[t].labels & (1 << w) != 0 {
                    sim.nodes[t].labels &= !(1 << w);
                    let id = sim.nodes[t].id;
                    sim.removal_event(id, w);
                    sim.mutated = true;
                }
                out.classes.push("remove_label".into());
            }
            VOp::Delete { sel } => {
                if sim.nodes.is_empty() {
                    continue;
                }
                let t = pick_idx(*sel, sim.nodes.len());
                must!(format!("MATCH (n {{uid: {}}}) DELETE n", sim.nodes[t].uid));
                let nd = sim.nodes.remove(t);
                for w in 0..2 {
                    if nd.labels & (1 << w) != 0 {
                        sim.removal_event(nd.id, w);
                    }
                }
                sim.mutated = true;
                out.classes.push("delete".into());
            }
            VOp::Search { which, q, copy, k, route } => {
                let w = (*which % 2) as usize;
                let Some(ix) = sim.idx[w].clone() else { continue };
                let qv = match copy.and_then(|c| if sim.nodes.is_empty() { None } else { sim.nodes[pick_idx(c, sim.nodes.len())].vec.clone() }) {
                    Some(v) => v,
                    None => to_f32(q, dims),
                };
                let k = *k as usize;
                let route = route % 3;
                let call = format!("CALL db.index.vector.queryNodes('{}', 'v', {}, {k}) YIELD node, score", LABELS[w], lit(&qv, false));
                let yield_only = |store: &mut GraphStore| -> Result<Result<Vec<u64>, String>, String> {
                    Ok(run_q(eng, store, &call)?.map(|b| {
                        b.records.iter().map(|r| match r.get("node") { Some(Value::NodeRef(id)) | Some(Value::Node(id, _)) => id.as_u64(), _ => u64::MAX }).collect()
                    }))
                };
                let stmt;
                let mut refused: Option<String> = None;
                let res: Result<Result<Vec<u64>, String>, String> = match route {
                    0 => {
                        stmt = call.clone();
                        yield_only(&mut store)
                    }
                    1 => {
                        stmt = format!("{call} RETURN id(node) AS id, node.uid AS uid, score");
                        match run_q(eng, &mut store, &stmt) {
                            Ok(Ok(b)) => Ok(Ok((0..b.records.len()).map(|r| if let PropertyValue::Integer(i) = col(&b, r, "id") { i as u64 } else { u64::MAX }).collect())),
                            Ok(Err(e)) => {
                                // the projection failed; fetch the raw hits to see why
                                refused = Some(e);
                                yield_only(&mut store)
                            }
                            Err(p) => Err(p),
                        }
                    }
                    _ => {
                        stmt = format!("vector_index.search('{}', 'v', {}, {k})", LABELS[w], lit(&qv, false));
                        catch(|| store.vector_index.search(LABELS[w], "v", &qv, k).map(|v| v.into_iter().map(|(id, _)| id.as_u64()).collect::<Vec<u64>>()).map_err(|e| e.to_string()))
                    }
                };
                let hits = match res {
                    Ok(Ok(h)) => h,
                    Ok(Err(e)) => {
                        out.trace.push(format!("{stmt} => refused"));
                        fail!("search `{stmt}` was refused: {e}");
                    }
                    Err(p) => {
                        out.trace.push(format!("{stmt} => PANIC"));
                        fail!("panic in `{stmt}`: {p}");
                    }
                };
                out.trace.push(format!("{stmt} => ids {hits:?}{}", if refused.is_some() { " (projection refused)" } else { "" }));
                let declared_cos = ix.metric == 0;
                let strict_entries = sim.strict_entries(w);
                let live: BTreeSet<u64> = sim.nodes.iter().map(|n| n.id).collect();
                let undefined = declared_cos && (is_zero(&qv) || strict_entries.iter().any(|e| is_zero(&e.1)));
                let mut verdict = judge(&strict_entries, declared_cos, &qv, k, &hits, undefined);
                if verdict.is_ok() {
                    if let Some(e) = &refused {
                        verdict = Err(format!("the search was refused ({e}) although every hit is a live node"));
                    }
                }
                if refused.is_some() && hits.iter().all(|h| live.contains(h)) && verdict.is_err() {
                    // a refusal not caused by a dead hit is never explained by a finding
                    fail!("search `{stmt}` refused: {}", refused.clone().unwrap());
                }
                let path = if strict_entries.len() <= EXACT_SEARCH_MAX { "exact" } else { "hnsw" };
                out.classes.push(format!("search_{path}_{}_route{route}", if declared_cos { "cosine" } else { "l2" }));
                if undefined {
                    out.classes.push("search_cosine_zero_vector_order_not_judged".into());
                }
                if k > strict_entries.len() {
                    out.classes.push("search_k_exceeds_entries".into());
                }
                if sim.mutated {
                    out.nontrivial = true;
                    out.classes.push("search_after_update_or_delete".into());
                }
                if let Err(strict_msg) = verdict {
                    // tolerated only if the answer equals the model's answer under enabled switches
                    let mut masks: Vec<u8> = (1..8u8).filter(|m| m & !active == 0).collect();
                    masks.sort_by_key(|m| m.count_ones());
                    let mut hit: Option<u8> = None;
                    for m in masks {
                        let cos = declared_cos || m & 4 != 0;
                        if m & 4 != 0 && declared_cos {
                            continue;
                        }
                        let entries = &ix.entries[(m & 3) as usize];
                        if judge(entries, cos, &qv, k, &hits, false).is_ok() {
                            // a refused projection is part of the answer only if a dead node is among the hits
                            if refused.is_some() && (m & 2 == 0) {
                                continue;
                            }
                            hit = Some(m);
                            break;
                        }
                    }
                    match hit {
                        Some(m) => {
                            for (id, bit) in KF29 {
                                if m & bit != 0 {
                                    out.kf.push(id);
                                }
                            }
                        }
                        None => fail!("search `{stmt}`: {strict_msg}"),
                    }
                }
            }
        }
        // targeted read-back of the store for the reference model (small histories only)
        if !matches!(op, VOp::Search { .. } | VOp::Bulk { .. }) && sim.nodes.len() <= 40 {
            if let Err(e) = c29_readback(eng, &mut store, &sim) {
                return Err(format!("INCONCLUSIVE: {e} | history: {}", out.trace.join(" ; ")));
            }
        }
    }
    if let Err(e) = c29_readback(eng, &mut store, &sim) {
        return Err(format!("INCONCLUSIVE: {e}"));
    }
    Ok(out)
}

/// the store's own account of (uid, id, labels, v) must equal the reference model, otherwise the
/// history cannot be judged (not a C29 clause)
fn c29_readback(eng: &QueryEngine, store: &mut GraphStore, sim: &VSim) -> Result<(), String> {
    let b = match run_q(eng, store, "MATCH (n) RETURN n.uid, id(n), labels(n), n.v") {
        Ok(Ok(b)) => b,
        Ok(Err(e)) | Err(e) => return Err(format!("read-back failed: {e}")),
    };
    let mut got: Vec<(i64, u64, u8, Option<Vec<u32>>)> = Vec::new();
    for r in 0..b.records.len() {
        let uid = if let PropertyValue::Integer(i) = col(&b, r, "n.uid") { i } else { -1 };
        let id = if let PropertyValue::Integer(i) = col(&b, r, "id(n)") { i as u64 } else { u64::MAX };
        let mut lab = 0u8;
        if let PropertyValue::Array(a) = col(&b, r, "labels(n)") {
            for x in a {
                if let PropertyValue::String(s) = x {
                    if let Some(w) = LABELS.iter().position(|l| *l == s) {
                        lab |= 1 << w;
                    }
                }
            }
        }
        let v = col(&b, r, "n.v").to_vector().map(|v| v.iter().map(|f| f.to_bits()).collect());
        got.push((uid, id, lab, v));
    }
    got.sort();
    let mut want: Vec<(i64, u64, u8, Option<Vec<u32>>)> = sim.nodes.iter().map(|n| (n.uid, n.id, n.labels, n.vec.as_ref().map(|v| v.iter().map(|f| (*f + 0.0).to_bits()).collect()))).collect();
    want.sort();
    // -0.0 cannot occur (components are written as decimals of k/4), compare bits directly
    if got != want {
        let diff: Vec<_> = got.iter().filter(|g| !want.contains(g)).take(3).collect();
        let diff2: Vec<_> = want.iter().filter(|g| !got.contains(g)).take(3).collect();
        return Err(format!("store read-back differs from the reference model: store has {diff:?}, model has {diff2:?}"));
    }
    Ok(())
}

fn vop_strategy() -> impl Strategy<Value = VOp> {
    let k = prop_oneof![8 => 1u16..3, 4 => 3u16..7, 1 => Just(0u16), 1 => Just(40u16), 1 => Just(400u16)];
    prop_oneof![
        2 => (0u8..2, 0u8..2).prop_map(|(which, metric)| VOp::CreateIndex { which, metric }),
        10 => (prop_oneof![6 => Just(1u8), 2 => Just(2u8), 2 => Just(3u8), 1 => Just(0u8)], proptest::option::weighted(0.9, vec_strategy()), proptest::bool::weighted(0.15)).prop_map(|(labels, vec, ints)| VOp::Create { labels, vec, ints }),
        5 => (any::<u16>(), vec_strategy(), proptest::option::weighted(0.2, any::<u16>())).prop_map(|(sel, vec, copy)| VOp::SetVec { sel, vec, copy }),
        1 => (any::<u16>(), 0u8..3).prop_map(|(sel, form)| VOp::Unset { sel, form }),
        1 => (any::<u16>(), 0u8..2).prop_map(|(sel, which)| VOp::AddLabel { sel, which }),
        1 => (any::<u16>(), 0u8..2).prop_map(|(sel, which)| VOp::RemoveLabel { sel, which }),
        2 => any::<u16>().prop_map(|sel| VOp::Delete { sel }),
        7 => (prop_oneof![3 => Just(0u8), 1 => Just(1u8)], vec_strategy(), proptest::option::weighted(0.3, any::<u16>()), k, 0u8..3).prop_map(|(which, q, copy, k, route)| VOp::Search { which, q, copy, k, route }),
    ]
}

fn vcase_strategy(bulk_weight: u32) -> impl Strategy<Value = VCase> {
    let head = prop_oneof![
        7 => (0u8..2).prop_map(|metric| Some(VOp::CreateIndex { which: 0, metric })),
        3 => Just(None),
    ];
    let bulk = prop_oneof![
        100 - bulk_weight => Just(None),
        bulk_weight => (129u16..=300, 0u8..2, any::<u16>()).prop_map(|(n, which, salt)| Some(VOp::Bulk { n, which, salt })),
    ];
    (2u8..=4, head, bulk, any::<u16>(), proptest::collection::vec(vop_strategy(), 1..24)).prop_map(|(dims, head, bulk, bpos, mut ops)| {
        if let Some(b) = bulk {
            let at = pick_idx(bpos, ops.len().min(6) + 1);
            ops.insert(at, b);
        }
        if let Some(h) = head {
            ops.insert(0, h);
        }
        VCase { dims, ops }
    })
}

fn c29(args: &Args) {
    let mut ev = Evidence::new(
        args,
        "exploration",
        "histories (<= 25 ops, dims 2-4) through Cypher: CREATE VECTOR INDEX (cosine/l2, labels D and E, at any position, re-creation allowed), CREATE nodes with/without a vector (dyadic components, zero vector, duplicates, integer spelling), SET a new or copied vector, REMOVE / null / non-vector value, SET/REMOVE label, DELETE, optional bulk of 129-300 nodes (HNSW path), interleaved with searches by CALL db.index.vector.queryNodes (YIELD only, and with a projection) and VectorIndexManager::search. Oracle: reference map node -> (labels, current vector): every hit a live node with label and vector, no node more often than once, hits ordered by the declared metric's distance to the current vector (tolerance 1e-5), size <= k; for <= 128 entries exactly min(k, n) hits whose distances are the k smallest. Non-trivial = a search on an existing index after an update, unset, label change or delete; distinct = distinct histories.",
    );
    ev.assume("cosine distance to or from a zero vector is undefined: such searches are judged for validity and size only");
    ev.assume("'searched exactly' = at most 128 index entries (EXACT_SEARCH_MAX in src/vector/index.rs)");
    ev.assume("the score column is not compared: the property fixes the ranking, not the score's scale");
    let kf = Known::load(args);
    let eng = QueryEngine::new();
    let parse = |v: &serde_json::Value| -> VCase { serde_json::from_value(v.clone()).expect("C29 case") };
    let mut active = 0u8;
    for (id, bit) in KF29 {
        if let Some(w) = witness_case(&kf, id) {
            let still = matches!(c29_run(&eng, &parse(&w), 0), Err(m) if !m.starts_with("INCONCLUSIVE"));
            kf.witness_result(&mut ev, id, still);
            if kf.active(id) {
                active |= bit;
            }
        }
    }
    let record = |ev: &mut Evidence, case: &VCase, o: &RunOut, class: &str| {
        ev.class(class);
        for c in &o.classes {
            ev.class(c);
        }
        for k in &o.kf {
            ev.kf_hit(k);
        }
        if o.nontrivial {
            ev.nontrivial(case);
            ev.class(&format!("{class}_nontrivial"));
            if ev.want_sample() && case.ops.len() <= 14 && case.ops.len() >= 5 {
                ev.sample(json!({"case": case, "statements": o.trace}));
            }
        }
    };
    let run = |case: &VCase| -> Result<RunOut, String> {
        match c29_run(&eng, case, active) {
            Err(m) if m.starts_with("INCONCLUSIVE") => inconclusive(&m),
            r => r,
        }
    };

    if let Some(p) = &args.replay {
        let case = parse(&load_replay(p));
        ev.case();
        match run(&case) {
            Ok(o) => {
                println!("replay: no unlisted violation; known findings matched: {:?}", o.kf);
                record(&mut ev, &case, &o, "replay");
            }
            Err(m) => {
                report_violation(&mut ev, &json!(case), &m);
            }
        }
        ev.nontrivial(&case);
        ev.nontrivial(&"replay");
        ev.sample(json!(case));
        finish(&ev);
    }

    let mut failure: Option<(VCase, String)> = None;
    for (p, c) in corpus_cases("C29") {
        let case = parse(&c);
        ev.case();
        match run(&case) {
            Ok(o) => record(&mut ev, &case, &o, "corpus"),
            Err(m) => {
                failure = Some((case, format!("{m} (corpus {})", p.display())));
                break;
            }
        }
    }

    if failure.is_none() {
        let n = args.tier.pick(3000u32, 60_000u32);
        let strat = vcase_strategy(12);
        let evc = RefCell::new(&mut ev);
        let res = search(args.seed, n, &strat, |case| {
            let mut e = evc.borrow_mut();
            e.case();
            match run(case) {
                Ok(o) => {
                    record(&mut **e, case, &o, "random");
                    Ok(())
                }
                Err(m) => {
                    e.frozen = true;
                    Err(m)
                }
            }
        });
        drop(evc);
        failure = res;
    }

    if let Some((case, msg)) = failure {
        ev.frozen = true;
        let dims = case.dims;
        let min_ops = shrink_vec(case.ops, &|cand: &[VOp]| matches!(c29_run(&eng, &VCase { dims, ops: cand.to_vec() }, active), Err(m) if !m.starts_with("INCONCLUSIVE")));
        let min = VCase { dims, ops: min_ops };
        let msg2 = c29_run(&eng, &min, active).err().unwrap_or(msg);
        report_violation(&mut ev, &json!(min), &msg2);
    }
    finish(&ev);
}
