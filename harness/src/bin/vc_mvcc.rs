//! C07 (versioned reads), C08 (version GC), C09 (first-committer-wins) — DESIGN §4.
use samyama::graph::{EdgeId, GraphStore, IsolationLevel, Label, NodeId, PropertyMap, PropertyValue};
use samyama::query::{QueryEngine, Value};
use serde::{Deserialize, Serialize};
use serde_json::json;
use std::collections::{BTreeMap, BTreeSet};
use vcheck::values::canon;
use vcheck::*;

fn main() {
    let args = parse_args();
    quiet_panics();
    start_watchdog(args.tier.pick(900, 3600));
    // one fresh GraphStore (and query executor) per case: keep freed heap pages mapped instead of
    // returning them to the kernel after every case (pure speed; no effect on results)
    unsafe {
        libc::mallopt(libc::M_TRIM_THRESHOLD, 1 << 30);
        libc::mallopt(libc::M_MMAP_THRESHOLD, 32 << 20);
    }
    match args.prop.as_str() {
        "C07" => c07(&args),
        "C08" => c08(&args),
        "C09" => c09(&args),
        p => {
            eprintln!("vc_mvcc does not serve {p}");
            std::process::exit(2)
        }
    }
}

// =======================================================================================
// Histories shared by C07 and C08: 2 node slots (labels A, B), 1 relationship slot (A)-[:R]->(B)

const LABELS: [&str; 2] = ["A", "B"];
const KEYS: [&str; 2] = ["p", "q"];
/// node ids / relationship ids that are read at every version (ids are handed out from 1 and
/// reused LIFO, so 2 slots never reach id 3; the extra id checks "never created => absent")
const NODE_IDS: u64 = 3;
const EDGE_IDS: u64 = 2;

#[derive(Clone, Debug, Serialize, Deserialize, PartialEq, Eq, Hash)]
enum HOp {
    /// create the node of a slot (label A / B); `props` => created with {p: val, q: val}
    CreateNode { slot: u8, props: bool },
    /// set_node_property(key, val) — val is the 1-based step number, so every write is distinct
    SetNode { slot: u8, key: u8 },
    RemNode { slot: u8, key: u8 },
    /// relationship slot0 -> slot1; `props` => created with {p: val, q: val}
    CreateEdge { props: bool },
    SetEdge { key: u8 },
    RemEdge { key: u8 },
    /// current_version += 1 (what the repo's own MVCC tests do)
    Bump,
    /// begin(ReadCommitted) + commit: the version bump a transaction commit performs
    TxnBump,
    /// advance the version by n at once: current_version += n, or n begin+commit pairs
    BumpBy { n: u64, via_commit: bool },
    DelEdge,
    DelNode { slot: u8 },
    // --- C08 only
    Begin { si: bool },
    Commit { t: u8 },
    Abort { t: u8 },
    Gc { w: u64 },
    GcAuto,
}

/// Which ops are applicable (a pure function of the ops so far; no ids needed).
#[derive(Clone, Default, Debug)]
struct Shape {
    node: [bool; 2],
    edge: bool,
    /// per begun transaction: still active?
    txns: Vec<bool>,
}

impl Shape {
    fn applicable(&self, op: &HOp) -> bool {
        match op {
            HOp::CreateNode { slot, .. } => (*slot as usize) < 2 && !self.node[*slot as usize],
            HOp::SetNode { slot, key } | HOp::RemNode { slot, key } => (*slot as usize) < 2 && (*key as usize) < 2 && self.node[*slot as usize],
            HOp::CreateEdge { .. } => !self.edge && self.node[0] && self.node[1],
            HOp::SetEdge { key } | HOp::RemEdge { key } => (*key as usize) < 2 && self.edge,
            HOp::Bump | HOp::TxnBump => true,
            HOp::BumpBy { n, .. } => *n >= 1 && *n <= 5000,
            HOp::DelEdge => self.edge,
            HOp::DelNode { slot } => (*slot as usize) < 2 && self.node[*slot as usize],
            HOp::Begin { .. } => self.txns.len() < 4,
            HOp::Commit { t } | HOp::Abort { t } => self.txns.get(*t as usize) == Some(&true),
            HOp::Gc { .. } | HOp::GcAuto => true,
        }
    }
    fn apply(&mut self, op: &HOp) {
        match op {
            HOp::CreateNode { slot, .. } => self.node[*slot as usize] = true,
            HOp::CreateEdge { .. } => self.edge = true,
            HOp::DelEdge => self.edge = false,
            HOp::DelNode { slot } => {
                self.node[*slot as usize] = false;
                self.edge = false;
            }
            HOp::Begin { .. } => self.txns.push(true),
            HOp::Commit { t } | HOp::Abort { t } => self.txns[*t as usize] = false,
            _ => {}
        }
    }
    fn valid(ops: &[HOp]) -> bool {
        let mut s = Shape::default();
        for o in ops {
            if !s.applicable(o) {
                return false;
            }
            s.apply(o);
        }
        true
    }
}

/// ids of the live slot occupants on the code side
#[derive(Clone, Default)]
struct Live {
    node: [Option<NodeId>; 2],
    edge: Option<EdgeId>,
    txns: Vec<u64>,
}

fn two_props(val: i64) -> PropertyMap {
    let mut m = PropertyMap::new();
    m.insert("p".to_string(), PropertyValue::Integer(val));
    m.insert("q".to_string(), PropertyValue::Integer(val));
    m
}

/// Apply one (non-GC) op to the store. Returns the id a create op allocated.
fn apply_store(store: &mut GraphStore, live: &mut Live, op: &HOp, val: i64) -> Result<Option<u64>, String> {
    match op {
        HOp::CreateNode { slot, props } => {
            let s = *slot as usize;
            let id = if *props { store.create_node_with_properties("default", vec![Label::new(LABELS[s])], two_props(val)) } else { store.create_node(LABELS[s]) };
            live.node[s] = Some(id);
            Ok(Some(id.as_u64()))
        }
        HOp::SetNode { slot, key } => {
            let id = live.node[*slot as usize].ok_or("set on empty slot")?;
            store.set_node_property("default", id, KEYS[*key as usize], PropertyValue::Integer(val)).map_err(|e| format!("set_node_property refused: {e}"))?;
            Ok(None)
        }
        HOp::RemNode { slot, key } => {
            let id = live.node[*slot as usize].ok_or("remove on empty slot")?;
            store.remove_node_property(id, KEYS[*key as usize]);
            Ok(None)
        }
        HOp::CreateEdge { props } => {
            let a = live.node[0].ok_or("edge without source")?;
            let b = live.node[1].ok_or("edge without target")?;
            let id = if *props { store.create_edge_with_properties(a, b, "R", two_props(val)) } else { store.create_edge(a, b, "R") }.map_err(|e| format!("create_edge refused: {e}"))?;
            live.edge = Some(id);
            Ok(Some(id.as_u64()))
        }
        HOp::SetEdge { key } => {
            let id = live.edge.ok_or("set on missing edge")?;
            store.set_edge_property(id, KEYS[*key as usize], PropertyValue::Integer(val)).map_err(|e| format!("set_edge_property refused: {e}"))?;
            Ok(None)
        }
        HOp::RemEdge { key } => {
            let id = live.edge.ok_or("remove on missing edge")?;
            store.remove_edge_property(id, KEYS[*key as usize]);
            Ok(None)
        }
        HOp::Bump => {
            store.current_version += 1;
            Ok(None)
        }
        HOp::TxnBump => {
            let t = store.begin_transaction(IsolationLevel::ReadCommitted);
            store.commit_transaction(t).map_err(|e| format!("commit of an empty transaction refused: {e}"))?;
            Ok(None)
        }
        HOp::BumpBy { n, via_commit } => {
            if *via_commit {
                for _ in 0..*n {
                    let t = store.begin_transaction(IsolationLevel::ReadCommitted);
                    store.commit_transaction(t).map_err(|e| format!("commit of an empty transaction refused: {e}"))?;
                }
            } else {
                store.current_version += *n;
            }
            Ok(None)
        }
        HOp::DelEdge => {
            let id = live.edge.take().ok_or("delete of missing edge")?;
            store.delete_edge(id).map_err(|e| format!("delete_edge refused: {e}"))?;
            Ok(None)
        }
        HOp::DelNode { slot } => {
            let id = live.node[*slot as usize].take().ok_or("delete of empty slot")?;
            store.delete_node("default", id).map_err(|e| format!("delete_node refused: {e}"))?;
            live.edge = None; // the relationship always touches both slots
            Ok(None)
        }
        HOp::Begin { si } => {
            let t = store.begin_transaction(if *si { IsolationLevel::SnapshotIsolation } else { IsolationLevel::ReadCommitted });
            live.txns.push(t);
            Ok(None)
        }
        HOp::Commit { t } => {
            let id = *live.txns.get(*t as usize).ok_or("commit of unknown txn")?;
            store.commit_transaction(id).map_err(|e| format!("commit without write set refused: {e}"))?;
            Ok(None)
        }
        HOp::Abort { t } => {
            let id = *live.txns.get(*t as usize).ok_or("abort of unknown txn")?;
            store.abort_transaction(id).map_err(|e| format!("abort of active txn refused: {e}"))?;
            Ok(None)
        }
        HOp::Gc { .. } | HOp::GcAuto => Err("GC op outside C08".to_string()),
    }
}

fn props_str(m: &PropertyMap) -> String {
    let mut v: Vec<String> = m.iter().map(|(k, x)| format!("{k}={}", canon(x))).collect();
    v.sort();
    v.join(",")
}
fn node_str(n: &samyama::graph::Node) -> String {
    let mut ls: Vec<&str> = n.labels.iter().map(|l| l.as_str()).collect();
    ls.sort();
    format!("{}|{}", ls.join(":"), props_str(&n.properties))
}
fn edge_str(e: &samyama::graph::Edge) -> String {
    format!("{}->{}:{}|{}", e.source.as_u64(), e.target.as_u64(), e.edge_type.as_str(), props_str(&e.properties))
}

// =======================================================================================
// C07

/// Everything C07 observes after a step.
#[derive(Clone, Debug, Default, PartialEq)]
struct StepObs {
    cur: u64,
    /// (node id, version) -> state, versions 1..=cur (v == cur is get_node)
    node_reads: BTreeMap<(u64, u64), Option<String>>,
    edge_reads: BTreeMap<(u64, u64), Option<String>>,
    node_count: usize,
    /// all_nodes() as sorted "id:state"
    all_nodes: Vec<String>,
    /// MATCH (n) RETURN count(n)
    cypher_count: i64,
    /// get_nodes_by_label per label as sorted "id:state"
    by_label: BTreeMap<String, Vec<String>>,
}

fn cypher_count(engine: &QueryEngine, store: &GraphStore) -> Result<i64, String> {
    let b = engine.execute("MATCH (n) RETURN count(n) AS c", store).map_err(|e| format!("count query refused: {e}"))?;
    match b.records.first().and_then(|r| r.get("c")) {
        Some(Value::Property(PropertyValue::Integer(i))) => Ok(*i),
        other => Err(format!("count query returned {other:?}")),
    }
}

fn observe_code(store: &GraphStore, engine: &QueryEngine) -> Result<StepObs, String> {
    let mut o = StepObs { cur: store.current_version, ..Default::default() };
    for id in 1..=NODE_IDS {
        let nid = NodeId::new(id);
        for v in 1..=o.cur {
            o.node_reads.insert((id, v), store.get_node_at_version(nid, v).map(node_str));
        }
        let g = store.get_node(nid).map(node_str);
        if Some(&g) != o.node_reads.get(&(id, o.cur)) {
            return Err(format!("get_node({id}) = {g:?} differs from get_node_at_version({id}, current {}) = {:?}", o.cur, o.node_reads.get(&(id, o.cur))));
        }
        if store.has_node(nid) != g.is_some() {
            return Err(format!("has_node({id}) = {} but get_node = {g:?}", store.has_node(nid)));
        }
    }
    for id in 1..=EDGE_IDS {
        let eid = EdgeId::new(id);
        for v in 1..=o.cur {
            o.edge_reads.insert((id, v), store.get_edge_at_version(eid, v).as_ref().map(edge_str));
        }
        let g = store.get_edge(eid).as_ref().map(edge_str);
        if Some(&g) != o.edge_reads.get(&(id, o.cur)) {
            return Err(format!("get_edge({id}) = {g:?} differs from get_edge_at_version({id}, current {})", o.cur));
        }
    }
    o.node_count = store.node_count();
    o.all_nodes = store.all_nodes().iter().map(|n| format!("{}:{}", n.id.as_u64(), node_str(n))).collect();
    o.all_nodes.sort();
    o.cypher_count = cypher_count(engine, store)?;
    for l in LABELS {
        let mut v: Vec<String> = store.get_nodes_by_label(&Label::new(l)).iter().map(|n| format!("{}:{}", n.id.as_u64(), node_str(n))).collect();
        v.sort();
        o.by_label.insert(l.to_string(), v);
    }
    Ok(o)
}

/// Run a history on a fresh store. Observes after every step, or after the last step only.
fn c07_code(ops: &[HOp], every_step: bool, engine: &QueryEngine) -> Result<(Vec<Option<u64>>, Vec<(usize, StepObs)>), String> {
    let mut store = GraphStore::new();
    let mut live = Live::default();
    let mut ids = Vec::with_capacity(ops.len());
    let mut obs = Vec::new();
    for (i, op) in ops.iter().enumerate() {
        let id = apply_store(&mut store, &mut live, op, i as i64 + 1).map_err(|e| format!("step {i} ({op:?}): {e}"))?;
        ids.push(id);
        if every_step || i + 1 == ops.len() {
            obs.push((i, observe_code(&store, engine).map_err(|e| format!("after step {i} ({op:?}): {e}"))?));
        }
    }
    Ok((ids, obs))
}

// --- reference versioned map, with one switch per listed root cause ---------------------

const NQ: usize = 8;
const KF_IDS: [&str; NQ] = ["KF-C07-1", "KF-C07-2", "KF-C07-3", "KF-C07-4", "KF-C07-5", "KF-C07-6", "KF-C07-7", "KF-C07-8"];
/// node_count / all_nodes / count(n) count every stored version
const Q_COUNT_VERSIONS: usize = 0;
/// remove_node_property edits the newest stored version in place (no copy-on-write)
const Q_REMOVE_IN_PLACE: usize = 1;
/// delete_node pops only the newest stored version (older ones resurface; reused id inherits them)
const Q_DELETE_POPS: usize = 2;
/// delete_node leaves no tombstone: the deleted node's history is gone
const Q_NODE_DELETE_ERASES: usize = 3;
/// relationship reads below the first version-log entry return the current map
const Q_EDGE_NO_PREIMAGE: usize = 4;
/// remove_edge_property is not recorded in the version log
const Q_EDGE_REMOVE_UNLOGGED: usize = 5;
/// delete_edge leaves no tombstone: the relationship's history is gone
const Q_EDGE_DELETE_ERASES: usize = 6;
/// the creation version of a relationship is not stored: it is readable before it existed
const Q_EDGE_BEFORE_CREATION: usize = 7;

#[derive(Clone, Copy, Debug, Default, PartialEq, Eq)]
struct Quirks {
    on: [bool; NQ],
}
impl Quirks {
    fn names(&self) -> Vec<&'static str> {
        (0..NQ).filter(|k| self.on[*k]).map(|k| KF_IDS[k]).collect()
    }
    fn without(&self, k: usize) -> Quirks {
        let mut q = *self;
        q.on[k] = false;
        q
    }
    fn any_edge(&self) -> bool {
        self.on[Q_EDGE_NO_PREIMAGE] || self.on[Q_EDGE_REMOVE_UNLOGGED] || self.on[Q_EDGE_DELETE_ERASES] || self.on[Q_EDGE_BEFORE_CREATION]
    }
}

type Props = BTreeMap<String, i64>;
fn mprops_str(p: &Props) -> String {
    // same rendering as props_str (BTreeMap iterates sorted)
    p.iter().map(|(k, v)| format!("{k}={}", canon(&PropertyValue::Integer(*v)))).collect::<Vec<_>>().join(",")
}

#[derive(Clone, Debug)]
struct NState {
    label: String,
    props: Props,
}

#[derive(Clone, Debug, Default)]
struct EdgeM {
    exists: bool,
    created_at: u64,
    src: u64,
    dst: u64,
    cur_props: Props,
    /// post-images keyed by version (what the code's version log holds under the active switches)
    log: Vec<(u64, Props)>,
    /// the strict history: (version, state or tombstone)
    strict: Vec<(u64, Option<String>)>,
    last_deleted_at: Option<u64>,
}

struct Model {
    q: Quirks,
    cur: u64,
    /// node id -> version chain (None = tombstone; exists only when deletions are versioned)
    chains: BTreeMap<u64, Vec<(u64, Option<NState>)>>,
    label_index: BTreeMap<String, BTreeSet<u64>>,
    edges: BTreeMap<u64, EdgeM>,
    node: [Option<u64>; 2],
    edge: Option<u64>,
    txn_count: usize,
}

impl Model {
    fn new(q: Quirks) -> Model {
        Model { q, cur: 1, chains: BTreeMap::new(), label_index: BTreeMap::new(), edges: BTreeMap::new(), node: [None, None], edge: None, txn_count: 0 }
    }
    fn two(val: i64) -> Props {
        let mut p = Props::new();
        p.insert("p".into(), val);
        p.insert("q".into(), val);
        p
    }
    /// copy-on-write edit of the newest version of a node
    fn node_edit(&mut self, id: u64, cow: bool, f: impl FnOnce(&mut Props)) {
        let cur = self.cur;
        let chain = self.chains.get_mut(&id).expect("edit of unknown node");
        let (lv, mut st) = match chain.last() {
            Some((v, Some(s))) => (*v, s.clone()),
            _ => panic!("model: edit of a node without a live newest version"),
        };
        f(&mut st.props);
        if cow && lv < cur {
            chain.push((cur, Some(st)));
        } else {
            chain.last_mut().unwrap().1 = Some(st);
        }
    }
    fn edge_strict_put(e: &mut EdgeM, cur: u64, st: Option<String>) {
        match e.strict.last_mut() {
            Some(l) if l.0 == cur => l.1 = st,
            _ => e.strict.push((cur, st)),
        }
    }
    fn edge_state(e: &EdgeM, props: &Props) -> String {
        format!("{}->{}:R|{}", e.src, e.dst, mprops_str(props))
    }
    fn edge_log(&mut self, id: u64, pre: Props) {
        let cur = self.cur;
        let q = self.q;
        let e = self.edges.get_mut(&id).unwrap();
        if e.log.is_empty() && !q.on[Q_EDGE_NO_PREIMAGE] {
            let base = if q.on[Q_EDGE_BEFORE_CREATION] { 1 } else { e.created_at };
            if base < cur {
                e.log.push((base, pre));
            }
        }
        let post = e.cur_props.clone();
        match e.log.last_mut() {
            Some(l) if l.0 == cur => l.1 = post,
            _ => e.log.push((cur, post)),
        }
    }
    fn delete_edge(&mut self) {
        if let Some(id) = self.edge.take() {
            let cur = self.cur;
            let e = self.edges.get_mut(&id).unwrap();
            e.exists = false;
            e.log.clear();
            e.cur_props.clear();
            e.last_deleted_at = Some(cur);
            Model::edge_strict_put(e, cur, None);
        }
    }
    fn apply(&mut self, op: &HOp, val: i64, new_id: Option<u64>) {
        let cur = self.cur;
        match op {
            HOp::CreateNode { slot, props } => {
                let id = new_id.expect("create returned an id");
                let label = LABELS[*slot as usize].to_string();
                let st = NState { label: label.clone(), props: if *props { Model::two(val) } else { Props::new() } };
                let chain = self.chains.entry(id).or_default();
                match chain.last_mut() {
                    Some(l) if l.0 == cur && l.1.is_none() => l.1 = Some(st),
                    _ => chain.push((cur, Some(st))),
                }
                self.label_index.entry(label).or_default().insert(id);
                self.node[*slot as usize] = Some(id);
            }
            HOp::SetNode { slot, key } => {
                let id = self.node[*slot as usize].unwrap();
                let k = KEYS[*key as usize].to_string();
                self.node_edit(id, true, |p| {
                    p.insert(k, val);
                });
            }
            HOp::RemNode { slot, key } => {
                let id = self.node[*slot as usize].unwrap();
                let k = KEYS[*key as usize];
                let cow = !self.q.on[Q_REMOVE_IN_PLACE];
                self.node_edit(id, cow, |p| {
                    p.remove(k);
                });
            }
            HOp::CreateEdge { props } => {
                let id = new_id.expect("create returned an id");
                let (a, b) = (self.node[0].unwrap(), self.node[1].unwrap());
                let e = self.edges.entry(id).or_default();
                e.exists = true;
                e.created_at = cur;
                e.src = a;
                e.dst = b;
                e.cur_props = if *props { Model::two(val) } else { Props::new() };
                e.log.clear();
                let st = Model::edge_state(e, &e.cur_props);
                Model::edge_strict_put(e, cur, Some(st));
                self.edge = Some(id);
            }
            HOp::SetEdge { key } => {
                let id = self.edge.unwrap();
                let e = self.edges.get_mut(&id).unwrap();
                let pre = e.cur_props.clone();
                e.cur_props.insert(KEYS[*key as usize].to_string(), val);
                let st = Model::edge_state(e, &e.cur_props);
                Model::edge_strict_put(e, cur, Some(st));
                self.edge_log(id, pre);
            }
            HOp::RemEdge { key } => {
                let id = self.edge.unwrap();
                let e = self.edges.get_mut(&id).unwrap();
                let pre = e.cur_props.clone();
                e.cur_props.remove(KEYS[*key as usize]);
                let st = Model::edge_state(e, &e.cur_props);
                Model::edge_strict_put(e, cur, Some(st));
                if !self.q.on[Q_EDGE_REMOVE_UNLOGGED] {
                    self.edge_log(id, pre);
                }
            }
            HOp::Bump | HOp::TxnBump | HOp::Commit { .. } => self.cur += 1,
            HOp::BumpBy { n, .. } => self.cur += *n,
            HOp::Begin { .. } => self.txn_count += 1,
            HOp::Abort { .. } | HOp::Gc { .. } | HOp::GcAuto => {}
            HOp::DelEdge => self.delete_edge(),
            HOp::DelNode { slot } => {
                let id = self.node[*slot as usize].take().unwrap();
                let label = LABELS[*slot as usize];
                if let Some(s) = self.label_index.get_mut(label) {
                    s.remove(&id);
                }
                let q = self.q;
                let chain = self.chains.get_mut(&id).unwrap();
                if !q.on[Q_NODE_DELETE_ERASES] {
                    match chain.last_mut() {
                        Some(l) if l.0 == cur => l.1 = None,
                        _ => chain.push((cur, None)),
                    }
                } else if q.on[Q_DELETE_POPS] {
                    chain.pop();
                } else {
                    chain.clear();
                }
                self.delete_edge();
            }
        }
    }
    fn node_read(&self, id: u64, v: u64) -> Option<&NState> {
        self.chains.get(&id)?.iter().rev().find(|e| e.0 <= v).and_then(|e| e.1.as_ref())
    }
    fn nstr(s: &NState) -> String {
        format!("{}|{}", s.label, mprops_str(&s.props))
    }
    fn edge_read(&self, id: u64, v: u64) -> Option<String> {
        let e = self.edges.get(&id)?;
        let strict = |v: u64| e.strict.iter().rev().find(|x| x.0 <= v).and_then(|x| x.1.clone());
        let q = self.q;
        if !q.any_edge() {
            return strict(v);
        }
        if !e.exists {
            return if q.on[Q_EDGE_DELETE_ERASES] { None } else { strict(v) };
        }
        if v < e.created_at {
            if !q.on[Q_EDGE_DELETE_ERASES] && e.last_deleted_at.map_or(false, |d| v < d) {
                return strict(v);
            }
            if !q.on[Q_EDGE_BEFORE_CREATION] {
                return None;
            }
        }
        // the version-log lookup of get_edge_at_version
        let props = match e.log.iter().rev().find(|x| x.0 <= v) {
            Some(entry) => {
                let later = e.log.iter().any(|x| x.0 > v);
                if later || v < self.cur {
                    entry.1.clone()
                } else {
                    e.cur_props.clone()
                }
            }
            None => e.cur_props.clone(),
        };
        Some(Model::edge_state(e, &props))
    }
    fn observe(&self) -> StepObs {
        let mut o = StepObs { cur: self.cur, ..Default::default() };
        for id in 1..=NODE_IDS {
            for v in 1..=self.cur {
                o.node_reads.insert((id, v), self.node_read(id, v).map(Model::nstr));
            }
        }
        for id in 1..=EDGE_IDS {
            for v in 1..=self.cur {
                o.edge_reads.insert((id, v), self.edge_read(id, v));
            }
        }
        if self.q.on[Q_COUNT_VERSIONS] {
            for (id, chain) in &self.chains {
                for (_, st) in chain {
                    if let Some(s) = st {
                        o.all_nodes.push(format!("{id}:{}", Model::nstr(s)));
                    }
                }
            }
        } else {
            for id in self.chains.keys() {
                if let Some(s) = self.node_read(*id, self.cur) {
                    o.all_nodes.push(format!("{id}:{}", Model::nstr(s)));
                }
            }
        }
        o.all_nodes.sort();
        o.node_count = o.all_nodes.len();
        o.cypher_count = o.all_nodes.len() as i64;
        for l in LABELS {
            let mut v = Vec::new();
            if let Some(ids) = self.label_index.get(l) {
                for id in ids {
                    if let Some(s) = self.node_read(*id, self.cur) {
                        v.push(format!("{id}:{}", Model::nstr(s)));
                    }
                }
            }
            v.sort();
            o.by_label.insert(l.to_string(), v);
        }
        o
    }
    /// some entity has two versions (non-triviality rule of C07, judged on the strict history)
    fn multi_version(&self) -> bool {
        self.chains.values().any(|c| c.len() >= 2) || self.edges.values().any(|e| e.strict.len() >= 2)
    }
}

fn c07_model(ops: &[HOp], ids: &[Option<u64>], every_step: bool, q: Quirks) -> (Vec<(usize, StepObs)>, bool) {
    let mut m = Model::new(q);
    let mut obs = Vec::new();
    for (i, op) in ops.iter().enumerate() {
        m.apply(op, i as i64 + 1, ids[i]);
        if every_step || i + 1 == ops.len() {
            obs.push((i, m.observe()));
        }
    }
    let multi = m.multi_version() && m.cur >= 2;
    (obs, multi)
}

fn obs_diff(code: &StepObs, want: &StepObs) -> Option<String> {
    if code.cur != want.cur {
        return Some(format!("current_version = {}, reference {}", code.cur, want.cur));
    }
    for (k, w) in &want.node_reads {
        let g = code.node_reads.get(k).cloned().flatten();
        if &g != w {
            let what = if k.1 == want.cur { format!("get_node({}) [current version {}]", k.0, k.1) } else { format!("get_node_at_version({}, {}) [current version {}]", k.0, k.1, want.cur) };
            return Some(format!("{what} = {g:?}, reference {w:?}"));
        }
    }
    for (k, w) in &want.edge_reads {
        let g = code.edge_reads.get(k).cloned().flatten();
        if &g != w {
            let what = if k.1 == want.cur { format!("get_edge({}) [current version {}]", k.0, k.1) } else { format!("get_edge_at_version({}, {}) [current version {}]", k.0, k.1, want.cur) };
            return Some(format!("{what} = {g:?}, reference {w:?}"));
        }
    }
    if code.node_count != want.node_count {
        return Some(format!("node_count() = {}, reference {} (live nodes: {:?})", code.node_count, want.node_count, want.all_nodes));
    }
    if code.all_nodes != want.all_nodes {
        return Some(format!("all_nodes() = {:?}, reference {:?}", code.all_nodes, want.all_nodes));
    }
    if code.cypher_count != want.cypher_count {
        return Some(format!("MATCH (n) RETURN count(n) = {}, reference {}", code.cypher_count, want.cypher_count));
    }
    if code.by_label != want.by_label {
        return Some(format!("get_nodes_by_label = {:?}, reference {:?}", code.by_label, want.by_label));
    }
    None
}

struct C07Out {
    nontrivial: bool,
    hits: Vec<usize>,
}

/// The C07 oracle: the store's observations must equal the reference versioned map with
/// exactly the enabled known-finding switches (none = the property as stated).
fn c07_eval(ops: &[HOp], every_step: bool, q: Quirks, engine: &QueryEngine) -> Result<C07Out, String> {
    let (ids, code) = match catch(|| c07_code(ops, every_step, engine)) {
        Ok(r) => r?,
        Err(p) => return Err(format!("panic: {p}")),
    };
    let (want, multi) = c07_model(ops, &ids, every_step, q);
    for ((i, c), (_, w)) in code.iter().zip(want.iter()) {
        if let Some(d) = obs_diff(c, w) {
            let sw = if q == Quirks::default() { String::new() } else { format!(" [reference run with the switches of {:?}]", q.names()) };
            return Err(format!("after step {i} ({:?}): {d}{sw}", ops[*i]));
        }
    }
    let mut hits = Vec::new();
    if q != Quirks::default() {
        let (strict, _) = c07_model(ops, &ids, every_step, Quirks::default());
        if strict != want {
            for k in 0..NQ {
                if q.on[k] && c07_model(ops, &ids, every_step, q.without(k)).0 != want {
                    hits.push(k);
                }
            }
        }
    }
    Ok(C07Out { nontrivial: multi, hits })
}

/// Strict oracle restricted to the clause a finding is about (so that each witness answers
/// for exactly one root cause): does the witness still fail?
fn c07_witness_fails(k: usize, ops: &[HOp], engine: &QueryEngine) -> bool {
    if !Shape::valid(ops) || ops.iter().any(|o| matches!(o, HOp::Gc { .. } | HOp::GcAuto)) {
        return false;
    }
    let (ids, code) = match catch(|| c07_code(ops, true, engine)) {
        Ok(Ok(r)) => r,
        _ => return true,
    };
    let (want, _) = c07_model(ops, &ids, true, Quirks::default());
    let last = code.len().saturating_sub(1);
    for (n, ((_, c), (_, w))) in code.iter().zip(want.iter()).enumerate() {
        let differs = match k {
            Q_COUNT_VERSIONS => c.node_count != w.node_count || c.all_nodes != w.all_nodes || c.cypher_count != w.cypher_count,
            Q_REMOVE_IN_PLACE | Q_NODE_DELETE_ERASES => w.node_reads.iter().any(|(key, x)| key.1 < w.cur && c.node_reads.get(key) != Some(x)),
            Q_DELETE_POPS => n == last && w.node_reads.iter().any(|(key, x)| key.1 == w.cur && c.node_reads.get(key) != Some(x)),
            _ => c.edge_reads != w.edge_reads,
        };
        if differs {
            return true;
        }
    }
    false
}

#[derive(Serialize, Deserialize)]
struct HCase {
    ops: Vec<HOp>,
}

fn parse_hcase(v: serde_json::Value) -> Vec<HOp> {
    let c: HCase = serde_json::from_value(v).unwrap_or_else(|e| {
        eprintln!("replay case does not parse: {e}");
        std::process::exit(2)
    });
    c.ops
}

fn c07_alphabet(keys: u8) -> Vec<HOp> {
    let mut a = Vec::new();
    for slot in 0..2u8 {
        a.push(HOp::CreateNode { slot, props: false });
        a.push(HOp::CreateNode { slot, props: true });
    }
    for slot in 0..2u8 {
        for key in 0..keys {
            a.push(HOp::SetNode { slot, key });
            a.push(HOp::RemNode { slot, key });
        }
    }
    a.push(HOp::CreateEdge { props: false });
    a.push(HOp::CreateEdge { props: true });
    for key in 0..keys {
        a.push(HOp::SetEdge { key });
        a.push(HOp::RemEdge { key });
    }
    a.push(HOp::Bump);
    a.push(HOp::TxnBump);
    a.push(HOp::DelEdge);
    a.push(HOp::DelNode { slot: 0 });
    a.push(HOp::DelNode { slot: 1 });
    a
}

/// histories by construction from raw selectors (no rejection): an inapplicable choice falls
/// back to the op that makes it applicable, or is dropped
fn c07_build(raw: &[(u8, u16)]) -> Vec<HOp> {
    let mut s = Shape::default();
    let mut ops = Vec::new();
    for (kind, sel) in raw {
        let slot = (sel & 1) as u8;
        let key = ((sel >> 1) & 1) as u8;
        let flag = (sel >> 2) & 1 == 1;
        let cands: Vec<HOp> = match kind % 16 {
            0 | 1 => vec![HOp::CreateNode { slot, props: flag }, HOp::SetNode { slot, key }],
            2 | 3 => vec![HOp::SetNode { slot, key }, HOp::CreateNode { slot, props: flag }],
            4 => vec![HOp::RemNode { slot, key }, HOp::CreateNode { slot, props: true }],
            5 => vec![HOp::CreateEdge { props: flag }, HOp::CreateNode { slot: 0, props: false }, HOp::CreateNode { slot: 1, props: false }, HOp::SetEdge { key }],
            6 | 7 => vec![HOp::SetEdge { key }, HOp::CreateEdge { props: flag }, HOp::CreateNode { slot: 0, props: false }, HOp::CreateNode { slot: 1, props: false }],
            8 => vec![HOp::RemEdge { key }, HOp::CreateEdge { props: true }],
            9 | 10 | 11 => vec![HOp::Bump],
            12 => vec![HOp::TxnBump],
            13 => vec![HOp::DelEdge, HOp::Bump],
            14 => vec![HOp::DelNode { slot }, HOp::DelNode { slot: 1 - slot }],
            _ => vec![HOp::SetNode { slot, key }, HOp::SetEdge { key }, HOp::Bump],
        };
        if let Some(op) = cands.into_iter().find(|o| s.applicable(o)) {
            s.apply(&op);
            ops.push(op);
        }
    }
    ops
}

fn c07_classes(ops: &[HOp], ev: &mut Evidence) {
    let mut bumped = false;
    let mut deleted = false;
    let (mut upd_after_bump, mut del_after_bump, mut recreate, mut rem) = (false, false, false, false);
    for o in ops {
        match o {
            HOp::Bump | HOp::TxnBump | HOp::BumpBy { .. } => bumped = true,
            HOp::SetNode { .. } | HOp::SetEdge { .. } if bumped => upd_after_bump = true,
            HOp::RemNode { .. } | HOp::RemEdge { .. } => rem = true,
            HOp::DelNode { .. } | HOp::DelEdge => {
                deleted = true;
                if bumped {
                    del_after_bump = true
                }
            }
            HOp::CreateNode { .. } | HOp::CreateEdge { .. } if deleted => recreate = true,
            _ => {}
        }
    }
    if upd_after_bump {
        ev.class("update_after_bump");
    }
    if rem {
        ev.class("has_remove_property");
    }
    if del_after_bump {
        ev.class("delete_after_bump");
    }
    if recreate {
        ev.class("recreate_after_delete");
    }
    if ops.iter().any(|o| matches!(o, HOp::TxnBump)) {
        ev.class("bump_via_commit");
    }
}

fn c07(args: &Args) {
    let mut ev = Evidence::new(
        args,
        "exploration",
        "histories over 2 node slots + 1 relationship slot: create (with/without properties), set/remove node and relationship property, version bump (direct and via begin+commit), delete relationship, delete node (re-creation reuses ids). Bounded-exhaustive (every history up to the depth bound is a case, observed after its last step) + random histories up to 14 ops (observed after every step). Oracle: reference versioned map; get_node_at_version/get_edge_at_version for every id and every version 1..=current, get_node/get_edge, node_count, all_nodes, MATCH (n) RETURN count(n), get_nodes_by_label must equal it (equality at every version after every step = every earlier read re-issued and unchanged). Non-trivial = some node or relationship has >= 2 versions and current_version >= 2 (so a read at an old version is made); distinct = distinct histories.",
    );
    ev.assume("property values are integers (the step number), labels and relationship type fixed: the property is about versions, not value types");
    ev.assume("reads are made at versions 1..=current_version; version 0 and future versions are not read");
    let kf = Known::load(args);
    let engine = QueryEngine::new();

    // known findings: replay each witness through the strict oracle clause it is about
    let mut q = Quirks::default();
    for k in 0..NQ {
        if !kf.listed(KF_IDS[k]) {
            continue;
        }
        let fails = match witness_case(&kf, KF_IDS[k]) {
            Some(c) => c07_witness_fails(k, &parse_hcase(c), &engine),
            None => false,
        };
        if kf.witness_result(&mut ev, KF_IDS[k], fails) {
            q.on[k] = true;
        }
    }

    if let Some(p) = &args.replay {
        let ops = parse_hcase(load_replay(p));
        ev.case();
        if !Shape::valid(&ops) {
            eprintln!("replay case is not a valid history");
            std::process::exit(2);
        }
        match c07_eval(&ops, true, q, &engine) {
            Ok(o) => {
                println!("replay: property held{}", if o.hits.is_empty() { String::new() } else { format!(" (explained by known findings {:?})", o.hits.iter().map(|k| KF_IDS[*k]).collect::<Vec<_>>()) });
                for k in o.hits {
                    ev.kf_hit(KF_IDS[k]);
                }
            }
            Err(m) => {
                report_violation(&mut ev, &json!({ "ops": ops }), &m);
            }
        }
        ev.nontrivial(&ops);
        ev.nontrivial(&"replay");
        ev.sample(json!({ "ops": ops }));
        finish(&ev);
    }

    let mut failure: Option<(Vec<HOp>, String)> = None;
    let mut account = |ev: &mut Evidence, ops: &[HOp], o: &C07Out, tag: &str| {
        ev.class(tag);
        if o.nontrivial {
            ev.nontrivial(ops);
            ev.class("nontrivial");
            c07_classes(ops, ev);
            if ev.want_sample() && ops.len() >= 4 && ops.iter().any(|x| matches!(x, HOp::SetEdge { .. } | HOp::RemNode { .. })) {
                ev.sample(json!({ "ops": ops }));
            }
        }
        for k in &o.hits {
            ev.kf_hit(KF_IDS[*k]);
        }
    };

    // regression corpus first
    for (p, case) in corpus_cases("C07") {
        let ops = parse_hcase(case);
        if !Shape::valid(&ops) {
            continue;
        }
        ev.case();
        match c07_eval(&ops, true, q, &engine) {
            Ok(o) => account(&mut ev, &ops, &o, "corpus"),
            Err(m) => {
                report_violation(&mut ev, &json!({ "ops": ops }), &format!("{m} (corpus {})", p.display()));
                finish(&ev);
            }
        }
    }

    // bounded-exhaustive: every applicable history up to `depth` over the one-key alphabet
    let depth = args.tier.pick(6usize, 7usize);
    let alphabet = c07_alphabet(1);
    {
        fn dfs(depth: usize, alphabet: &[HOp], stack: &mut Vec<HOp>, shape: &Shape, visit: &mut dyn FnMut(&[HOp]) -> bool) -> bool {
            for op in alphabet {
                if !shape.applicable(op) {
                    continue;
                }
                let mut s2 = shape.clone();
                s2.apply(op);
                stack.push(op.clone());
                let go = visit(stack) && (stack.len() >= depth || dfs(depth, alphabet, stack, &s2, visit));
                stack.pop();
                if !go {
                    return false;
                }
            }
            true
        }
        let mut stack = Vec::new();
        let mut visit = |ops: &[HOp]| -> bool {
            ev.case();
            match c07_eval(ops, false, q, &engine) {
                Ok(o) => {
                    account(&mut ev, ops, &o, "exhaustive");
                    true
                }
                Err(m) => {
                    ev.frozen = true;
                    failure = Some((ops.to_vec(), m));
                    false
                }
            }
        };
        dfs(depth, &alphabet, &mut stack, &Shape::default(), &mut visit);
    }
    ev.exhaustive = Some(failure.is_none());
    ev.set("exhaustive_bound", json!({"depth": depth, "alphabet_ops": alphabet.len(), "keys": 1, "note": "exhaustive for histories up to this depth only; the random part is a sample"}));

    // random longer histories, both keys, observed after every step
    if failure.is_none() {
        let n = args.tier.pick(20_000u32, 1_000_000u32);
        let strat = proptest::collection::vec((0u8..16, 0u16..8), 1..=14);
        let evc = std::cell::RefCell::new(&mut ev);
        let acc = std::cell::RefCell::new(&mut account);
        let res = search(args.seed, n, &strat, |raw| {
            let ops = c07_build(raw);
            let mut e = evc.borrow_mut();
            e.case();
            if ops.is_empty() {
                return Ok(());
            }
            match c07_eval(&ops, true, q, &engine) {
                Ok(o) => {
                    (acc.borrow_mut())(&mut e, &ops, &o, "random");
                    Ok(())
                }
                Err(m) => {
                    e.frozen = true;
                    Err(m)
                }
            }
        });
        drop(evc);
        if let Some((raw, msg)) = res {
            failure = Some((c07_build(&raw), msg));
        }
    }

    // long version gaps: the same random histories with up to two of their bumps replaced by a
    // jump of a boundary-sized distance; all versions 1..=current are read after the last step
    if failure.is_none() {
        let n = args.tier.pick(300usize, 5000usize);
        let strat = (proptest::collection::vec((0u8..16, 0u16..8), 4..=14), 0u16..=u16::MAX, 0u16..=u16::MAX, proptest::bool::ANY);
        for (raw, s1, s2, via_commit) in generate(args.seed ^ 0x6a9, n, &strat) {
            let mut ops = c07_build(&raw);
            let bumps: Vec<usize> = (0..ops.len()).filter(|i| matches!(ops[*i], HOp::Bump | HOp::TxnBump)).collect();
            if bumps.is_empty() {
                ops.push(HOp::BumpBy { n: GAPS[pick_idx(s1, GAPS.len())], via_commit });
            } else {
                let i1 = bumps[pick_idx(s1, bumps.len())];
                ops[i1] = HOp::BumpBy { n: GAPS[pick_idx(s2, GAPS.len())], via_commit };
                let i2 = bumps[pick_idx(s2, bumps.len())];
                if i2 != i1 {
                    ops[i2] = HOp::BumpBy { n: GAPS[pick_idx(s1.wrapping_mul(31), GAPS.len())], via_commit: !via_commit };
                }
            }
            ev.case();
            match c07_eval(&ops, false, q, &engine) {
                Ok(o) => {
                    account(&mut ev, &ops, &o, "long_version_gap");
                }
                Err(m) => {
                    ev.frozen = true;
                    failure = Some((ops, m));
                    break;
                }
            }
        }
    }

    if let Some((ops, msg)) = failure {
        let fails = |cand: &[HOp]| -> bool { !cand.is_empty() && Shape::valid(cand) && c07_eval(cand, true, q, &engine).is_err() };
        let min = if fails(&ops) { shrink_vec(ops, &fails) } else { ops };
        let msg2 = c07_eval(&min, true, q, &engine).err().unwrap_or(msg);
        report_violation(&mut ev, &json!({ "ops": min }), &msg2);
    }
    finish(&ev);
}

// =======================================================================================
// C08 — before/after differential on one store + twin store that never collects

/// every read C08 must see preserved: (entity, version) for versions lo..=current, the
/// current reads, and (when asked) every read of every listed transaction
/// versions lo..=cur to read: all of them for short ranges; for long ranges both ends and the
/// neighbourhood of every version at which something was written or a transaction began
fn c08_versions(lo: u64, cur: u64, marks: &BTreeSet<u64>) -> Vec<u64> {
    let lo = lo.max(1);
    if cur < lo {
        return Vec::new();
    }
    if cur - lo <= 256 {
        return (lo..=cur).collect();
    }
    let mut vs: BTreeSet<u64> = (lo..=lo + 2).chain(cur - 2..=cur).collect();
    for m in marks {
        for v in m.saturating_sub(1)..=m + 1 {
            if v >= lo && v <= cur {
                vs.insert(v);
            }
        }
    }
    vs.into_iter().collect()
}

fn c08_reads(store: &GraphStore, lo: u64, txns: &[(usize, u64)], marks: &BTreeSet<u64>) -> BTreeMap<String, Option<String>> {
    let mut m = BTreeMap::new();
    let versions = c08_versions(lo, store.current_version, marks);
    for id in 1..=NODE_IDS {
        let nid = NodeId::new(id);
        for &v in &versions {
            m.insert(format!("get_node_at_version({id}, {v})"), store.get_node_at_version(nid, v).map(node_str));
        }
        m.insert(format!("get_node({id})"), store.get_node(nid).map(node_str));
        for (ti, t) in txns {
            m.insert(format!("get_node_for_txn(t{ti}, {id})"), store.get_node_for_txn(*t, nid).map(node_str));
        }
    }
    for id in 1..=EDGE_IDS {
        let eid = EdgeId::new(id);
        for &v in &versions {
            m.insert(format!("get_edge_at_version({id}, {v})"), store.get_edge_at_version(eid, v).as_ref().map(edge_str));
        }
        m.insert(format!("get_edge({id})"), store.get_edge(eid).as_ref().map(edge_str));
        for (ti, t) in txns {
            m.insert(format!("get_edge_for_txn(t{ti}, {id})"), store.get_edge_for_txn(*t, eid).as_ref().map(edge_str));
        }
    }
    m
}

fn map_diff(a: &BTreeMap<String, Option<String>>, b: &BTreeMap<String, Option<String>>) -> Option<String> {
    for (k, x) in a {
        if b.get(k) != Some(x) {
            return Some(format!("{k}: {x:?} vs {:?}", b.get(k).cloned().flatten()));
        }
    }
    None
}

#[derive(Default)]
struct C08Out {
    pruned: usize,
    pruned_edges: usize,
    manual: u32,
    auto: u32,
    auto_with_active: bool,
    w_above_txn_start: bool,
    /// largest (current_version - start_version) of an active transaction at a gc_auto
    max_auto_lag: u64,
    /// a collection ran while the live relationship / a live node had no properties left although
    /// an older version had some
    gc_empty_edge: bool,
    gc_empty_node: bool,
    /// ... and an active SI transaction had begun before the removal that emptied it
    gc_empty_edge_earlier_reader: bool,
    gc_empty_node_earlier_reader: bool,
}

/// ops of the C08 domain: the operations for which C07 holds + transactions + GC
fn c08_domain(op: &HOp) -> bool {
    !matches!(op, HOp::DelEdge | HOp::DelNode { .. })
}

fn c08_run(ops: &[HOp]) -> Result<C08Out, String> {
    let mut a = GraphStore::new(); // collects
    let mut b = GraphStore::new(); // twin: same history without the GC ops
    let (mut la, mut lb) = (Live::default(), Live::default());
    let mut shape = Shape::default();
    // per begun txn: (si, start_version)
    let mut tinfo: Vec<(bool, u64)> = Vec::new();
    let mut wmax: u64 = 0;
    let mut gc_seen = false;
    let mut out = C08Out::default();
    // versions at which something was written or a transaction began (read sampling, long ranges)
    let mut marks: BTreeSet<u64> = BTreeSet::new();
    // live map empty although an older version had properties: the version at which it became empty
    let mut edge_had = false;
    let mut edge_emptied: Option<u64> = None;
    let mut node_had = [false; 2];
    let mut node_emptied: [Option<u64>; 2] = [None, None];
    for (i, op) in ops.iter().enumerate() {
        let val = i as i64 + 1;
        let active: Vec<(usize, u64)> = (0..shape.txns.len()).filter(|t| shape.txns[*t]).map(|t| (t, la.txns[t])).collect();
        match op {
            HOp::Gc { .. } | HOp::GcAuto => {
                let auto = matches!(op, HOp::GcAuto);
                let w = if let HOp::Gc { w } = op { *w } else { a.gc_watermark() };
                // manual watermark: only reads at versions >= w are owed; gc_auto also owes every
                // read of every active transaction
                let owed_txns: Vec<(usize, u64)> = if auto { active.clone() } else { Vec::new() };
                let before = c08_reads(&a, w, &owed_txns, &marks);
                let (np, ep) = if auto { a.gc_auto() } else { a.gc_versions(w) };
                let after = c08_reads(&a, w, &owed_txns, &marks);
                if let Some(d) = map_diff(&before, &after) {
                    return Err(format!("step {i} ({op:?}, watermark {w}, current_version {}) changed a read it must preserve: {d} (before vs after; pruned {np} node versions, {ep} log entries)", a.current_version));
                }
                out.pruned += np + ep;
                out.pruned_edges += ep;
                if auto {
                    out.auto += 1;
                    out.auto_with_active |= !active.is_empty();
                    let earlier = |at: u64| active.iter().any(|(t, _)| tinfo[*t].0 && tinfo[*t].1 < at);
                    out.gc_empty_edge_earlier_reader |= edge_emptied.map_or(false, earlier);
                    out.gc_empty_node_earlier_reader |= node_emptied.iter().any(|e| e.map_or(false, earlier));
                    for (t, _) in &active {
                        out.max_auto_lag = out.max_auto_lag.max(a.current_version - tinfo[*t].1);
                    }
                } else {
                    out.manual += 1;
                    out.w_above_txn_start |= active.iter().any(|(t, _)| tinfo[*t].1 < w);
                }
                out.gc_empty_edge |= edge_emptied.is_some();
                out.gc_empty_node |= node_emptied.iter().any(|e| e.is_some());
                wmax = wmax.max(w);
                gc_seen = true;
            }
            _ => {
                if let HOp::Begin { si } = op {
                    tinfo.push((*si, a.current_version));
                }
                let ra = apply_store(&mut a, &mut la, op, val).map_err(|e| format!("step {i} ({op:?}): {e}"))?;
                let rb = apply_store(&mut b, &mut lb, op, val).map_err(|e| format!("step {i} ({op:?}) on the twin: {e}"))?;
                marks.insert(a.current_version);
                if let Some(eid) = la.edge {
                    if a.get_edge(eid).map_or(true, |e| e.properties.is_empty()) {
                        if edge_had && edge_emptied.is_none() {
                            edge_emptied = Some(a.current_version);
                        }
                    } else {
                        edge_had = true;
                        edge_emptied = None;
                    }
                }
                for sl in 0..2 {
                    if let Some(nid) = la.node[sl] {
                        if a.get_node(nid).map_or(true, |n| n.properties.is_empty()) {
                            if node_had[sl] && node_emptied[sl].is_none() {
                                node_emptied[sl] = Some(a.current_version);
                            }
                        } else {
                            node_had[sl] = true;
                            node_emptied[sl] = None;
                        }
                    }
                }
                if ra != rb {
                    return Err(format!("step {i} ({op:?}) allocated id {ra:?} after GC but {rb:?} without"));
                }
                shape.apply(op);
            }
        }
        if gc_seen {
            // later reads: the collecting store and the twin agree on everything GC had to keep
            if a.current_version != b.current_version {
                return Err(format!("after step {i} ({op:?}): current_version {} vs {} on the twin that never collected", a.current_version, b.current_version));
            }
            let owed: Vec<(usize, u64)> = (0..shape.txns.len()).filter(|t| shape.txns[*t] && (!tinfo[*t].0 || tinfo[*t].1 >= wmax)).map(|t| (t, la.txns[t])).collect();
            let ra = c08_reads(&a, wmax, &owed, &marks);
            let rb = c08_reads(&b, wmax, &owed, &marks);
            if let Some(d) = map_diff(&rb, &ra) {
                return Err(format!("after step {i} ({op:?}): a read at a version >= every watermark used ({wmax}) differs from the twin store that never collected: {d} (twin vs collected)"));
            }
        }
    }
    Ok(out)
}

fn c08_eval(ops: &[HOp]) -> Result<C08Out, String> {
    match catch(|| c08_run(ops)) {
        Ok(r) => r,
        Err(p) => Err(format!("panic: {p}")),
    }
}

/// version distances around typical constant boundaries (lag limits, ring sizes, batch sizes)
const GAPS: [u64; 17] = [1, 2, 31, 32, 33, 63, 64, 65, 66, 127, 128, 129, 255, 256, 257, 1000, 1025];

/// Long-version-gap history: entities with some history, transactions begun, then the version
/// advanced by `gap` (in two legs with entity writes between them, so that an entity has a
/// version at or below the transactions' start and a newer one far below the final version),
/// then gc_auto(), a few more writes and a second gc_auto().
fn c08_gap_history(gap: u64, leg1: u64, writes: u8, via_commit: bool, txns: u8, pre: bool, tail: bool) -> Vec<HOp> {
    let mut ops = vec![HOp::CreateNode { slot: 0, props: true }, HOp::CreateNode { slot: 1, props: false }, HOp::CreateEdge { props: true }, HOp::SetEdge { key: 0 }];
    if pre {
        ops.extend([HOp::Bump, HOp::SetNode { slot: 0, key: 0 }, HOp::SetEdge { key: 1 }, HOp::Bump]);
    }
    match txns % 5 {
        0 => ops.push(HOp::Begin { si: true }),
        1 => ops.extend([HOp::Begin { si: true }, HOp::Begin { si: false }]),
        2 => ops.extend([HOp::Begin { si: false }, HOp::Begin { si: true }]),
        3 => ops.extend([HOp::Begin { si: true }, HOp::Bump, HOp::SetNode { slot: 1, key: 0 }, HOp::Begin { si: true }]),
        _ => ops.push(HOp::Begin { si: false }),
    }
    let leg1 = leg1.min(gap);
    if leg1 > 0 {
        ops.push(HOp::BumpBy { n: leg1, via_commit });
    }
    if writes & 1 != 0 {
        ops.push(HOp::SetNode { slot: 0, key: 0 });
    }
    if writes & 2 != 0 {
        ops.push(HOp::SetEdge { key: 0 });
    }
    if writes & 4 != 0 {
        ops.push(HOp::SetNode { slot: 1, key: 1 });
    }
    if writes & 8 != 0 {
        // the relationship's live map ends empty while older versions had properties
        ops.extend([HOp::RemEdge { key: 0 }, HOp::RemEdge { key: 1 }]);
    }
    if writes & 16 != 0 {
        ops.extend([HOp::RemNode { slot: 0, key: 0 }, HOp::RemNode { slot: 0, key: 1 }]);
    }
    if gap > leg1 {
        ops.push(HOp::BumpBy { n: gap - leg1, via_commit });
    }
    ops.push(HOp::GcAuto);
    if tail {
        if writes & 8 != 0 {
            ops.extend([HOp::SetNode { slot: 1, key: 0 }, HOp::Bump, HOp::GcAuto, HOp::Commit { t: 0 }, HOp::GcAuto]);
        } else {
            ops.extend([HOp::SetNode { slot: 0, key: 1 }, HOp::SetEdge { key: 0 }, HOp::Bump, HOp::GcAuto, HOp::Commit { t: 0 }, HOp::GcAuto]);
        }
    }
    ops
}

fn c08_build(raw: &[(u8, u16)]) -> Vec<HOp> {
    let mut s = Shape::default();
    let mut ops = Vec::new();
    let mut cur = 1u64;
    for (kind, sel) in raw {
        let slot = (sel & 1) as u8;
        let key = ((sel >> 1) & 1) as u8;
        let flag = (sel >> 2) & 1 == 1;
        let t = pick_idx(sel.wrapping_mul(8191), s.txns.len().max(1)) as u8;
        // "remove every property" of the relationship / a node: two ops at once
        if kind % 24 == 22 || kind % 24 == 23 {
            for k in 0..2u8 {
                let op = if kind % 24 == 22 { HOp::RemEdge { key: k } } else { HOp::RemNode { slot, key: k } };
                if s.applicable(&op) {
                    ops.push(op);
                }
            }
            continue;
        }
        let cands: Vec<HOp> = match kind % 24 {
            20 => vec![HOp::RemEdge { key }, HOp::SetEdge { key }],
            21 => vec![HOp::RemNode { slot, key }, HOp::SetNode { slot, key }],
            0 => vec![HOp::CreateNode { slot, props: flag }, HOp::SetNode { slot, key }],
            1 | 2 | 3 => vec![HOp::SetNode { slot, key }, HOp::CreateNode { slot, props: flag }],
            4 => vec![HOp::CreateEdge { props: flag }, HOp::CreateNode { slot: 0, props: false }, HOp::CreateNode { slot: 1, props: false }],
            5 | 6 | 7 => vec![HOp::SetEdge { key }, HOp::CreateEdge { props: flag }, HOp::CreateNode { slot: 0, props: false }, HOp::CreateNode { slot: 1, props: false }],
            8 | 9 => vec![HOp::Bump],
            10 => vec![if sel & 0x300 == 0 { HOp::BumpBy { n: GAPS[pick_idx(sel.wrapping_mul(25173), GAPS.len())], via_commit: flag } } else { HOp::Bump }],
            11 | 12 => vec![HOp::Begin { si: flag }, HOp::Bump],
            13 => vec![HOp::Commit { t }, HOp::Commit { t: 0 }, HOp::Commit { t: 1 }, HOp::Begin { si: flag }],
            14 => vec![HOp::Abort { t }, HOp::Abort { t: 0 }, HOp::Begin { si: flag }],
            15 | 16 => vec![HOp::GcAuto],
            _ => vec![HOp::Gc { w: pick_idx(sel.wrapping_mul(40503), cur as usize + 2) as u64 }],
        };
        if let Some(op) = cands.into_iter().find(|o| s.applicable(o)) {
            if matches!(op, HOp::Bump | HOp::Commit { .. }) {
                cur += 1;
            }
            if let HOp::BumpBy { n, .. } = &op {
                cur += *n;
            }
            s.apply(&op);
            ops.push(op);
        }
    }
    ops
}

fn c08(args: &Args) {
    let mut ev = Evidence::new(
        args,
        "exploration",
        "version histories over 2 nodes + 1 relationship (create, set property, remove property - including removal of the last property, so the live map is empty while older versions had properties -, version bump, begin/commit/abort of RC and SI transactions; no deletes) with gc_versions(w) for every w in 0..=current+1 and gc_auto() inserted at every position (bounded-exhaustive part), plus random histories with several collections. Oracle: on the collecting store every get_node_at_version/get_edge_at_version at versions >= w and every current read is identical immediately before and after the call; for gc_auto additionally every get_node_for_txn/get_edge_for_txn of every active transaction; after every later step the same reads equal those of a twin store that ran the history without collecting. A long-version-gap generator (class long_version_gap) begins SI/RC transactions, advances the version by 1..1100 (grid over 1,2,31-33,63-66,127-129,255-257,1000,1025 plus generated distances; direct jumps and runs of commits) with entity writes early in the gap, then gc_auto(). Over ranges longer than 256 versions the reads are taken at both ends and around every version written or begun at. Non-trivial = the history's collections pruned at least one version; distinct = distinct histories.",
    );
    ev.assume("for a hand-picked gc_versions(w), reads below w - including those of a transaction that started below w - may change (the caller chose w); only gc_auto owes active transactions their reads");
    ev.assume("histories exclude delete_node/delete_edge, which drop an entity's history without GC (C07 known findings); remove-property is included: both oracles are differentials on the collection itself (before/after one call; same history with and without collecting), so they do not depend on C07 holding for removal");

    let account = |ev: &mut Evidence, ops: &[HOp], o: &C08Out, tag: &str| {
        ev.class(tag);
        if o.manual > 0 {
            ev.class("gc_manual");
        }
        if o.auto > 0 {
            ev.class("gc_auto");
        }
        if o.auto_with_active {
            ev.class("gc_auto_with_active_txn");
        }
        if o.w_above_txn_start {
            ev.class("manual_watermark_above_active_txn_start");
        }
        if o.manual + o.auto > 1 {
            ev.class("several_collections");
        }
        if o.gc_empty_edge {
            ev.class("gc_with_property_less_live_edge");
        }
        if o.gc_empty_edge_earlier_reader {
            ev.class("gc_auto_property_less_live_edge_si_reader_from_before_removal");
        }
        if o.gc_empty_node {
            ev.class("gc_with_property_less_live_node");
        }
        if o.gc_empty_node_earlier_reader {
            ev.class("gc_auto_property_less_live_node_si_reader_from_before_removal");
        }
        if o.max_auto_lag >= 30 {
            ev.class("long_version_gap");
            ev.class(match o.max_auto_lag {
                0..=62 => "gc_auto_txn_lag_30_62",
                63..=66 => "gc_auto_txn_lag_63_66",
                67..=126 => "gc_auto_txn_lag_67_126",
                127..=129 => "gc_auto_txn_lag_127_129",
                130..=254 => "gc_auto_txn_lag_130_254",
                255..=257 => "gc_auto_txn_lag_255_257",
                _ => "gc_auto_txn_lag_over_257",
            });
        }
        if o.pruned > 0 {
            ev.nontrivial(ops);
            ev.class("pruned");
            if o.pruned_edges > 0 {
                ev.class("pruned_edge_log");
            }
            if ev.want_sample() && o.pruned_edges > 0 && o.auto_with_active {
                ev.sample(json!({ "ops": ops }));
            }
        }
    };

    if let Some(p) = &args.replay {
        let ops = parse_hcase(load_replay(p));
        if !Shape::valid(&ops) || !ops.iter().all(c08_domain) {
            eprintln!("replay case is not a valid C08 history");
            std::process::exit(2);
        }
        ev.case();
        match c08_eval(&ops) {
            Ok(_) => println!("replay: property held"),
            Err(m) => {
                report_violation(&mut ev, &json!({ "ops": ops }), &m);
            }
        }
        ev.nontrivial(&ops);
        ev.nontrivial(&"replay");
        ev.sample(json!({ "ops": ops }));
        finish(&ev);
    }

    let mut failure: Option<(Vec<HOp>, String)> = None;
    for (p, case) in corpus_cases("C08") {
        let ops = parse_hcase(case);
        if !Shape::valid(&ops) || !ops.iter().all(c08_domain) {
            continue;
        }
        ev.case();
        match c08_eval(&ops) {
            Ok(o) => account(&mut ev, &ops, &o, "corpus"),
            Err(m) => {
                report_violation(&mut ev, &json!({ "ops": ops }), &format!("{m} (corpus {})", p.display()));
                finish(&ev);
            }
        }
    }

    // bounded-exhaustive: fixed two-node-one-relationship start, every history of `depth` ops,
    // every insertion point, every watermark 0..=current+1 and gc_auto
    let depth = args.tier.pick(5usize, 6usize);
    // node 1 and the relationship carry exactly one property (p), so one remove empties the live map
    let setup = vec![HOp::CreateNode { slot: 0, props: false }, HOp::SetNode { slot: 0, key: 0 }, HOp::CreateNode { slot: 1, props: false }, HOp::CreateEdge { props: false }, HOp::SetEdge { key: 0 }];
    let alphabet = vec![
        HOp::SetNode { slot: 0, key: 0 },
        HOp::SetEdge { key: 0 },
        HOp::RemEdge { key: 0 },
        HOp::RemNode { slot: 0, key: 0 },
        HOp::Bump,
        HOp::Begin { si: true },
        HOp::Begin { si: false },
        HOp::Commit { t: 0 },
        HOp::Commit { t: 1 },
        HOp::Abort { t: 0 },
        HOp::Abort { t: 1 },
    ];
    {
        let mut histories: Vec<Vec<HOp>> = Vec::new();
        fn dfs(depth: usize, alphabet: &[HOp], stack: &mut Vec<HOp>, shape: &Shape, out: &mut Vec<Vec<HOp>>) {
            if stack.len() == depth {
                out.push(stack.clone());
                return;
            }
            for op in alphabet {
                if !shape.applicable(op) || (matches!(op, HOp::Begin { .. }) && shape.txns.len() >= 2) {
                    continue;
                }
                let mut s2 = shape.clone();
                s2.apply(op);
                stack.push(op.clone());
                dfs(depth, alphabet, stack, &s2, out);
                stack.pop();
            }
        }
        let mut base = Shape::default();
        for o in &setup {
            base.apply(o);
        }
        dfs(depth, &alphabet, &mut Vec::new(), &base, &mut histories);
        ev.set("exhaustive_bound", json!({"setup_ops": setup.len(), "depth": depth, "alphabet_ops": alphabet.len(), "max_txns": 2, "histories": histories.len(), "note": "exhaustive inside this bound only; every history x every insertion point x every watermark 0..=current+1 and gc_auto"}));
        'outer: for h in &histories {
            for p in 0..=h.len() {
                let cur_p = 1 + h[..p].iter().filter(|o| matches!(o, HOp::Bump | HOp::Commit { .. })).count() as u64;
                let mut gcs: Vec<HOp> = (0..=cur_p + 1).map(|w| HOp::Gc { w }).collect();
                gcs.push(HOp::GcAuto);
                for g in gcs {
                    let mut ops = setup.clone();
                    ops.extend_from_slice(&h[..p]);
                    ops.push(g);
                    ops.extend_from_slice(&h[p..]);
                    ev.case();
                    match c08_eval(&ops) {
                        Ok(o) => account(&mut ev, &ops, &o, "exhaustive"),
                        Err(m) => {
                            ev.frozen = true;
                            failure = Some((ops, m));
                            break 'outer;
                        }
                    }
                }
            }
        }
    }
    ev.exhaustive = Some(failure.is_none());

    // long version gaps: active SI/RC transactions far behind the current version at gc_auto().
    // systematic grid over boundary distances, then generated distances
    if failure.is_none() {
        let mut cases: Vec<Vec<HOp>> = Vec::new();
        for &gap in GAPS.iter() {
            for leg1 in [0u64, 1, 2, gap / 2] {
                for writes in [1u8, 2, 3, 7, 8, 24, 26] {
                    for via_commit in [false, true] {
                        for txns in 0..5u8 {
                            for pre in [false, true] {
                                cases.push(c08_gap_history(gap, leg1, writes, via_commit, txns, pre, txns % 2 == 0));
                            }
                        }
                    }
                }
            }
        }
        let n = args.tier.pick(3000usize, 100_000usize);
        let strat = (1u64..=1100, 0u64..=1100, 0u8..32, proptest::bool::ANY, 0u8..5, proptest::bool::ANY, proptest::bool::ANY);
        for (gap, leg1, writes, via_commit, txns, pre, tail) in generate(args.seed ^ 0x9a9, n, &strat) {
            cases.push(c08_gap_history(gap, leg1 % (gap + 1), writes, via_commit, txns, pre, tail));
        }
        for ops in cases {
            ev.case();
            match c08_eval(&ops) {
                Ok(o) => account(&mut ev, &ops, &o, "long_gap_generator"),
                Err(m) => {
                    ev.frozen = true;
                    failure = Some((ops, m));
                    break;
                }
            }
        }
    }

    // random histories from an empty store, several collections each
    if failure.is_none() {
        let n = args.tier.pick(20_000usize, 1_500_000usize);
        let strat = proptest::collection::vec((0u8..24, 0u16..=u16::MAX), 3..=16);
        for raw in generate(args.seed, n, &strat) {
            let ops = c08_build(&raw);
            ev.case();
            if !ops.iter().any(|o| matches!(o, HOp::Gc { .. } | HOp::GcAuto)) {
                ev.class("random_without_gc");
                continue;
            }
            match c08_eval(&ops) {
                Ok(o) => account(&mut ev, &ops, &o, "random"),
                Err(m) => {
                    ev.frozen = true;
                    failure = Some((ops, m));
                    break;
                }
            }
        }
    }

    if let Some((ops, msg)) = failure {
        let fails = |cand: &[HOp]| -> bool { !cand.is_empty() && Shape::valid(cand) && c08_eval(cand).is_err() };
        let mut min = if fails(&ops) { shrink_vec(ops, &fails) } else { ops };
        // then shrink the jump sizes
        loop {
            let mut changed = false;
            for i in 0..min.len() {
                if let HOp::BumpBy { n, via_commit } = min[i].clone() {
                    for cand_n in [n / 2, n - 1] {
                        if cand_n >= 1 && cand_n < n {
                            let mut c = min.clone();
                            c[i] = HOp::BumpBy { n: cand_n, via_commit };
                            if fails(&c) {
                                min = c;
                                changed = true;
                                break;
                            }
                        }
                    }
                }
            }
            if !changed {
                break;
            }
        }
        let msg2 = c08_eval(&min).err().unwrap_or(msg);
        report_violation(&mut ev, &json!({ "ops": min }), &msg2);
    }
    finish(&ev);
}

// =======================================================================================
// C09 — abstract first-committer-wins model vs commit_transaction / abort_transaction

#[derive(Clone, Debug, Serialize, Deserialize, PartialEq, Eq, Hash)]
enum TOp {
    Begin { si: bool },
    /// txn_write_node(t, node k)
    WNode { t: u8, k: u8 },
    /// txn_write_edge(t, relationship k)
    WEdge { t: u8, k: u8 },
    Commit { t: u8 },
    Abort { t: u8 },
    /// a write outside any transaction that creates a version: current_version += 1, set p
    DirectNode { k: u8 },
    DirectEdge { k: u8 },
}

const ST_ACTIVE: u8 = 0;
const ST_COMMITTED: u8 = 1;
const ST_FAILED: u8 = 2; // aborted, or commit refused

#[derive(Clone, Debug)]
struct TxnM {
    si: bool,
    status: u8,
    start: u64,
    nws: BTreeSet<u8>,
    ews: BTreeSet<u8>,
    /// commit was called while the transaction was active
    reached_commit: bool,
    /// commit/abort calls made after it finished
    probes: u8,
}

#[derive(Clone, Debug)]
struct TModel {
    cur: u64,
    txns: Vec<TxnM>,
    nlast: BTreeMap<u8, u64>,
    elast: BTreeMap<u8, u64>,
    /// value history of p per entity: (version, value)
    nval: Vec<Vec<(u64, i64)>>,
    evals: Vec<Vec<(u64, i64)>>,
    last_commit: u64,
    directs: u8,
    nontrivial: bool,
    conflict_refused: bool,
    node_edge_same_id: bool,
}

#[derive(Clone, Copy)]
struct TBounds {
    max_txns: usize,
    nodes: u8,
    edges: u8,
    max_directs: u8,
    max_probes: u8,
    depth: usize,
}

impl TModel {
    fn new() -> TModel {
        TModel { cur: 1, txns: Vec::new(), nlast: BTreeMap::new(), elast: BTreeMap::new(), nval: vec![vec![(1, 0)]; 2], evals: vec![vec![(1, 0)]; 2], last_commit: 0, directs: 0, nontrivial: false, conflict_refused: false, node_edge_same_id: false }
    }
    fn applicable(&self, op: &TOp, b: &TBounds) -> bool {
        match op {
            TOp::Begin { .. } => self.txns.len() < b.max_txns,
            TOp::WNode { t, k } => *k < b.nodes && self.txns.get(*t as usize).map_or(false, |x| x.status == ST_ACTIVE && !x.nws.contains(k)),
            TOp::WEdge { t, k } => *k < b.edges && self.txns.get(*t as usize).map_or(false, |x| x.status == ST_ACTIVE && !x.ews.contains(k)),
            TOp::Commit { t } | TOp::Abort { t } => self.txns.get(*t as usize).map_or(false, |x| x.status == ST_ACTIVE || x.probes < b.max_probes),
            TOp::DirectNode { k } => *k < b.nodes && self.directs < b.max_directs,
            TOp::DirectEdge { k } => *k < b.edges && self.directs < b.max_directs,
        }
    }
    /// expected outcome of commit(t): Ok iff active and no entity of its write set was committed
    /// by another transaction after it began
    fn commit_ok(&self, t: usize) -> bool {
        let x = &self.txns[t];
        x.status == ST_ACTIVE && !x.nws.iter().any(|k| self.nlast.get(k).map_or(false, |v| *v > x.start)) && !x.ews.iter().any(|k| self.elast.get(k).map_or(false, |v| *v > x.start))
    }
    /// apply an op; for Commit the caller passes the version the store returned (if Ok)
    fn apply(&mut self, op: &TOp, val: i64, committed_at: Option<u64>) {
        match op {
            TOp::Begin { si } => self.txns.push(TxnM { si: *si, status: ST_ACTIVE, start: self.cur, nws: BTreeSet::new(), ews: BTreeSet::new(), reached_commit: false, probes: 0 }),
            TOp::WNode { t, k } => {
                self.txns[*t as usize].nws.insert(*k);
            }
            TOp::WEdge { t, k } => {
                self.txns[*t as usize].ews.insert(*k);
            }
            TOp::Commit { t } => {
                let t = *t as usize;
                if self.txns[t].status != ST_ACTIVE {
                    self.txns[t].probes += 1;
                    return;
                }
                // non-triviality: another transaction with an intersecting write set also reached commit
                let me = self.txns[t].clone();
                for (u, other) in self.txns.iter().enumerate() {
                    if u != t && other.reached_commit {
                        if other.nws.intersection(&me.nws).next().is_some() || other.ews.intersection(&me.ews).next().is_some() {
                            self.nontrivial = true;
                        }
                        if other.nws.iter().any(|k| me.ews.contains(k)) || other.ews.iter().any(|k| me.nws.contains(k)) {
                            self.node_edge_same_id = true;
                        }
                    }
                }
                self.txns[t].reached_commit = true;
                if self.commit_ok(t) {
                    let v = committed_at.unwrap_or(self.cur + 1);
                    self.cur = v;
                    self.last_commit = v;
                    for k in me.nws {
                        self.nlast.insert(k, v);
                    }
                    for k in me.ews {
                        self.elast.insert(k, v);
                    }
                    self.txns[t].status = ST_COMMITTED;
                } else {
                    self.txns[t].status = ST_FAILED;
                    self.conflict_refused = true;
                }
            }
            TOp::Abort { t } => {
                let t = *t as usize;
                if self.txns[t].status != ST_ACTIVE {
                    self.txns[t].probes += 1;
                } else {
                    self.txns[t].status = ST_FAILED;
                }
            }
            TOp::DirectNode { k } => {
                self.cur += 1;
                self.directs += 1;
                self.nval[*k as usize].push((self.cur, val));
            }
            TOp::DirectEdge { k } => {
                self.cur += 1;
                self.directs += 1;
                self.evals[*k as usize].push((self.cur, val));
            }
        }
    }
    fn value_at(h: &[(u64, i64)], v: u64) -> Option<i64> {
        h.iter().rev().find(|e| e.0 <= v).map(|e| e.1)
    }
}

struct C09Out {
    nontrivial: bool,
    conflict_refused: bool,
    node_edge_same_id: bool,
    probes: bool,
    directs: bool,
}

fn pval(p: Option<&PropertyValue>) -> Option<i64> {
    match p {
        Some(PropertyValue::Integer(i)) => Some(*i),
        _ => None,
    }
}

fn c09_run(ops: &[TOp]) -> Result<C09Out, String> {
    let mut store = GraphStore::new();
    // nodes 1,2 and relationships 1 (1->2), 2 (2->1): node and relationship id spaces overlap
    let n: Vec<NodeId> = (0..2).map(|_| store.create_node("N")).collect();
    let e: Vec<EdgeId> = vec![store.create_edge(n[0], n[1], "R").map_err(|x| x.to_string())?, store.create_edge(n[1], n[0], "R").map_err(|x| x.to_string())?];
    for k in 0..2 {
        store.set_node_property("default", n[k], "p", PropertyValue::Integer(0)).map_err(|x| x.to_string())?;
        store.set_edge_property(e[k], "p", PropertyValue::Integer(0)).map_err(|x| x.to_string())?;
    }
    let mut m = TModel::new();
    let mut ids: Vec<u64> = Vec::new();
    let unbounded = TBounds { max_txns: 8, nodes: 2, edges: 2, max_directs: u8::MAX, max_probes: u8::MAX, depth: 0 };
    let mut probes = false;
    for (i, op) in ops.iter().enumerate() {
        if !m.applicable(op, &unbounded) {
            return Err(format!("inapplicable op at step {i}: {op:?}"));
        }
        let val = i as i64 + 1;
        let mut committed_at = None;
        match op {
            TOp::Begin { si } => {
                let id = store.begin_transaction(if *si { IsolationLevel::SnapshotIsolation } else { IsolationLevel::ReadCommitted });
                if ids.contains(&id) {
                    return Err(format!("step {i} ({op:?}): begin_transaction returned id {id} twice"));
                }
                ids.push(id);
            }
            TOp::WNode { t, k } => store.txn_write_node(ids[*t as usize], n[*k as usize]),
            TOp::WEdge { t, k } => store.txn_write_edge(ids[*t as usize], e[*k as usize]),
            TOp::Commit { t } => {
                let x = &m.txns[*t as usize];
                let want_ok = m.commit_ok(*t as usize);
                probes |= x.status != ST_ACTIVE;
                let why = if x.status != ST_ACTIVE { "the transaction had already finished or failed" } else if want_ok { "no entity of its write set was committed by another transaction after it began" } else { "an entity of its write set was committed by another transaction after it began" };
                let before = store.current_version;
                match store.commit_transaction(ids[*t as usize]) {
                    Ok(v) => {
                        if !want_ok {
                            return Err(format!("step {i} ({op:?}): commit succeeded (version {v}) although {why}"));
                        }
                        if v <= m.last_commit || v <= before {
                            return Err(format!("step {i} ({op:?}): commit version {v} is not greater than the previous commit version {} / current version {before}", m.last_commit));
                        }
                        if store.current_version != v {
                            return Err(format!("step {i} ({op:?}): commit returned version {v} but current_version is {}", store.current_version));
                        }
                        committed_at = Some(v);
                    }
                    Err(err) => {
                        if want_ok {
                            return Err(format!("step {i} ({op:?}): commit refused ({err}) although {why}"));
                        }
                        if store.current_version != before {
                            return Err(format!("step {i} ({op:?}): refused commit moved current_version {before} -> {}", store.current_version));
                        }
                    }
                }
            }
            TOp::Abort { t } => {
                let active = m.txns[*t as usize].status == ST_ACTIVE;
                probes |= !active;
                let before = store.current_version;
                let r = store.abort_transaction(ids[*t as usize]);
                if r.is_ok() != active {
                    return Err(format!("step {i} ({op:?}): abort returned {r:?} for a transaction that was {}", if active { "active" } else { "already finished or failed" }));
                }
                if store.current_version != before {
                    return Err(format!("step {i} ({op:?}): abort moved current_version"));
                }
            }
            TOp::DirectNode { k } => {
                store.current_version += 1;
                store.set_node_property("default", n[*k as usize], "p", PropertyValue::Integer(val)).map_err(|x| format!("step {i}: {x}"))?;
            }
            TOp::DirectEdge { k } => {
                store.current_version += 1;
                store.set_edge_property(e[*k as usize], "p", PropertyValue::Integer(val)).map_err(|x| format!("step {i}: {x}"))?;
            }
        }
        m.apply(op, val, committed_at);
        if store.current_version != m.cur {
            return Err(format!("after step {i} ({op:?}): current_version {} but the model is at {}", store.current_version, m.cur));
        }
        // every active transaction reads at the version its isolation level prescribes
        for (t, x) in m.txns.iter().enumerate() {
            if x.status != ST_ACTIVE {
                continue;
            }
            let rv = if x.si { x.start } else { m.cur };
            for k in 0..2 {
                let got = store.get_node_for_txn(ids[t], n[k]).map(|nd| pval(nd.get_property("p")));
                let want = Some(TModel::value_at(&m.nval[k], rv));
                if got != want {
                    return Err(format!("after step {i} ({op:?}): get_node_for_txn(t{t} [{}, started at {}], node {}) p = {got:?}, expected the value as of version {rv} = {want:?}", if x.si { "SI" } else { "RC" }, x.start, k + 1));
                }
                let got = store.get_edge_for_txn(ids[t], e[k]).map(|ed| pval(ed.properties.get("p")));
                let want = Some(TModel::value_at(&m.evals[k], rv));
                if got != want {
                    return Err(format!("after step {i} ({op:?}): get_edge_for_txn(t{t} [{}, started at {}], relationship {}) p = {got:?}, expected the value as of version {rv} = {want:?}", if x.si { "SI" } else { "RC" }, x.start, k + 1));
                }
            }
        }
    }
    Ok(C09Out { nontrivial: m.nontrivial, conflict_refused: m.conflict_refused, node_edge_same_id: m.node_edge_same_id, probes, directs: m.directs > 0 })
}

fn c09_eval(ops: &[TOp]) -> Result<C09Out, String> {
    match catch(|| c09_run(ops)) {
        Ok(r) => r,
        Err(p) => Err(format!("panic: {p}")),
    }
}

#[derive(Serialize, Deserialize)]
struct TCase {
    ops: Vec<TOp>,
}

fn c09_alphabet(b: &TBounds) -> Vec<TOp> {
    let mut a = vec![TOp::Begin { si: true }, TOp::Begin { si: false }];
    for t in 0..b.max_txns as u8 {
        for k in 0..b.nodes {
            a.push(TOp::WNode { t, k });
        }
        for k in 0..b.edges {
            a.push(TOp::WEdge { t, k });
        }
        a.push(TOp::Commit { t });
        a.push(TOp::Abort { t });
    }
    for k in 0..b.nodes {
        a.push(TOp::DirectNode { k });
    }
    for k in 0..b.edges {
        a.push(TOp::DirectEdge { k });
    }
    a
}

fn c09_valid(ops: &[TOp]) -> bool {
    let unbounded = TBounds { max_txns: 8, nodes: 2, edges: 2, max_directs: u8::MAX, max_probes: u8::MAX, depth: 0 };
    let mut m = TModel::new();
    for (i, o) in ops.iter().enumerate() {
        if !m.applicable(o, &unbounded) {
            return false;
        }
        m.apply(o, i as i64 + 1, None);
    }
    true
}

fn c09_build(raw: &[(u8, u16)]) -> Vec<TOp> {
    let b = TBounds { max_txns: 4, nodes: 2, edges: 2, max_directs: 6, max_probes: 2, depth: 0 };
    let mut m = TModel::new();
    let mut ops = Vec::new();
    for (kind, sel) in raw {
        let t = pick_idx(*sel, m.txns.len().max(1)) as u8;
        let k = ((sel >> 3) & 1) as u8;
        let si = (sel >> 4) & 1 == 1;
        let cands: Vec<TOp> = match kind % 16 {
            0 | 1 | 2 => vec![TOp::Begin { si }, TOp::Commit { t }],
            3 | 4 | 5 => vec![TOp::WNode { t, k }, TOp::WNode { t, k: 1 - k }, TOp::Begin { si }],
            6 | 7 => vec![TOp::WEdge { t, k }, TOp::WEdge { t, k: 1 - k }, TOp::Begin { si }],
            8 | 9 | 10 | 11 => vec![TOp::Commit { t }, TOp::Begin { si }],
            12 => vec![TOp::Abort { t }, TOp::Begin { si }],
            13 => vec![TOp::DirectNode { k }],
            14 => vec![TOp::DirectEdge { k }],
            _ => vec![TOp::Commit { t: t.wrapping_add(1) }, TOp::Abort { t }, TOp::Begin { si }],
        };
        if let Some(op) = cands.into_iter().find(|o| m.applicable(o, &b)) {
            m.apply(&op, 0, None);
            ops.push(op);
        }
    }
    ops
}

fn c09(args: &Args) {
    let mut ev = Evidence::new(
        args,
        "exploration",
        "operation orders over {begin(RC|SI), txn_write_node(t,k), txn_write_edge(t,k), commit(t), abort(t) (also on finished/failed transactions), direct versioned write (current_version += 1; set p)} on a store with nodes 1,2 and relationships 1,2 (node and relationship ids overlap); the API is &mut self, so an interleaving is an operation order. Bounded-exhaustive DFS (every order inside the bound) + random longer orders. Oracle: abstract first-committer-wins model (commit Ok iff the transaction is active and no entity of its write set was committed by another transaction after it began; versions strictly increasing and equal to current_version; commit/abort of a finished or failed transaction errs; a refused commit/abort leaves current_version alone); after every step every active transaction's get_node_for_txn/get_edge_for_txn equals the reference value as of start_version (SI) or current (RC). Non-trivial = two transactions with intersecting write sets both reach commit; distinct = distinct operation orders.",
    );
    ev.assume("reads of finished transactions are not specified and not asserted; the error variant (WriteConflict / TransactionNotActive / TransactionNotFound) is not asserted, only Ok vs Err");

    let account = |ev: &mut Evidence, ops: &[TOp], o: &C09Out, tag: &str| {
        ev.class(tag);
        if o.conflict_refused {
            ev.class("commit_refused_by_conflict");
        }
        if o.probes {
            ev.class("commit_or_abort_after_finish");
        }
        if o.directs {
            ev.class("direct_versioned_write");
        }
        if o.node_edge_same_id {
            ev.class("node_vs_relationship_same_id_both_commit");
        }
        if o.nontrivial {
            ev.nontrivial(ops);
            ev.class("nontrivial");
            if ev.want_sample() && o.conflict_refused && o.directs {
                ev.sample(json!({ "ops": ops }));
            }
        }
    };

    if let Some(p) = &args.replay {
        let c: TCase = serde_json::from_value(load_replay(p)).unwrap_or_else(|e| {
            eprintln!("replay case does not parse: {e}");
            std::process::exit(2)
        });
        if !c09_valid(&c.ops) {
            eprintln!("replay case is not a valid operation order");
            std::process::exit(2);
        }
        ev.case();
        match c09_eval(&c.ops) {
            Ok(_) => println!("replay: property held"),
            Err(m) => {
                report_violation(&mut ev, &json!({ "ops": c.ops }), &m);
            }
        }
        ev.nontrivial(&c.ops);
        ev.nontrivial(&"replay");
        ev.sample(json!({ "ops": c.ops }));
        finish(&ev);
    }

    let mut failure: Option<(Vec<TOp>, String)> = None;
    for (p, case) in corpus_cases("C09") {
        let c: TCase = match serde_json::from_value(case) {
            Ok(c) => c,
            Err(_) => continue,
        };
        if !c09_valid(&c.ops) {
            continue;
        }
        ev.case();
        match c09_eval(&c.ops) {
            Ok(o) => account(&mut ev, &c.ops, &o, "corpus"),
            Err(m) => {
                report_violation(&mut ev, &json!({ "ops": c.ops }), &format!("{m} (corpus {})", p.display()));
                finish(&ev);
            }
        }
    }

    // bounded-exhaustive: two passes with different bounds (2 txns / 3 entities / 2 direct writes
    // deep, and 3 txns narrower), every maximal order is run with checks after every step
    let passes: Vec<TBounds> = if args.tier == Tier::Quick {
        vec![
            TBounds { max_txns: 2, nodes: 2, edges: 1, max_directs: 1, max_probes: 1, depth: 7 },
            TBounds { max_txns: 3, nodes: 1, edges: 1, max_directs: 0, max_probes: 0, depth: 8 },
        ]
    } else {
        vec![
            TBounds { max_txns: 2, nodes: 2, edges: 1, max_directs: 2, max_probes: 1, depth: 9 },
            TBounds { max_txns: 3, nodes: 1, edges: 1, max_directs: 1, max_probes: 0, depth: 9 },
        ]
    };
    let mut bounds_json = Vec::new();
    for b in &passes {
        if failure.is_some() {
            break;
        }
        let alphabet = c09_alphabet(b);
        let mut leaves = 0u64;
        fn dfs(b: &TBounds, alphabet: &[TOp], stack: &mut Vec<TOp>, m: &TModel, visit: &mut dyn FnMut(&[TOp]) -> bool) -> bool {
            let mut extended = false;
            if stack.len() < b.depth {
                for op in alphabet {
                    if !m.applicable(op, b) {
                        continue;
                    }
                    extended = true;
                    let mut m2 = m.clone();
                    m2.apply(op, 0, None);
                    stack.push(op.clone());
                    let go = dfs(b, alphabet, stack, &m2, visit);
                    stack.pop();
                    if !go {
                        return false;
                    }
                }
            }
            if !extended && !stack.is_empty() {
                return visit(stack);
            }
            true
        }
        let mut visit = |ops: &[TOp]| -> bool {
            ev.case();
            leaves += 1;
            match c09_eval(ops) {
                Ok(o) => {
                    account(&mut ev, ops, &o, "exhaustive");
                    true
                }
                Err(m) => {
                    ev.frozen = true;
                    failure = Some((ops.to_vec(), m));
                    false
                }
            }
        };
        dfs(b, &alphabet, &mut Vec::new(), &TModel::new(), &mut visit);
        bounds_json.push(json!({"max_txns": b.max_txns, "nodes": b.nodes, "relationships": b.edges, "max_direct_writes": b.max_directs, "max_calls_on_finished_txn": b.max_probes, "depth": b.depth, "orders": leaves}));
    }
    ev.exhaustive = Some(failure.is_none());
    ev.set("exhaustive_bound", json!({"passes": bounds_json, "note": "exhaustive inside these bounds only (every operation order up to the depth; prefixes are checked step by step inside the maximal orders)"}));

    // random longer orders: up to 4 transactions, 4 entities
    if failure.is_none() {
        let n = args.tier.pick(30_000usize, 300_000usize);
        let strat = proptest::collection::vec((0u8..16, 0u16..=u16::MAX), 4..=18);
        for raw in generate(args.seed, n, &strat) {
            let ops = c09_build(&raw);
            ev.case();
            match c09_eval(&ops) {
                Ok(o) => account(&mut ev, &ops, &o, "random"),
                Err(m) => {
                    ev.frozen = true;
                    failure = Some((ops, m));
                    break;
                }
            }
        }
    }

    if let Some((ops, msg)) = failure {
        // removing an op can renumber later transactions; keep only candidates that stay valid
        let fails = |cand: &[TOp]| -> bool { !cand.is_empty() && c09_valid(cand) && c09_eval(cand).is_err() };
        let min = if fails(&ops) { shrink_vec(ops, &fails) } else { ops };
        let msg2 = c09_eval(&min).err().unwrap_or(msg);
        report_violation(&mut ev, &json!({ "ops": min }), &msg2);
    }
    finish(&ev);
}
