//! C20 (RESP framing under chunking), C21 (decoder safety on arbitrary bytes),
//! C22 (every reply is one RESP frame), C24 (NLQ never hands back a mutating statement)
//! — DESIGN §4.
use bytes::BytesMut;
use samyama::protocol::{CommandHandler, RespError, RespValue};
use serde_json::{json, Value as J};
use std::cell::RefCell;
use vcheck::*;

#[global_allocator]
static A: vcheck::forkrun::CountingAlloc = vcheck::forkrun::CountingAlloc;

fn main() {
    let args = parse_args();
    quiet_panics();
    start_watchdog(args.tier.pick(900, 3600));
    let r = catch(|| match args.prop.as_str() {
        "C20" => c20(&args),
        "C21" => c21(&args),
        "C22" => c22(&args),
        "C24" => c24(&args),
        p => {
            eprintln!("vc_proto does not serve {p}");
            std::process::exit(2)
        }
    });
    // the property functions end in finish(); getting here means the harness itself panicked
    eprintln!("INCONCLUSIVE: harness panic: {:?}", r.err());
    std::process::exit(2);
}

// =======================================================================================
// shared: bytes <-> JSON, model RESP value, independent encoder, tape reader

fn hex(b: &[u8]) -> String {
    b.iter().map(|x| format!("{x:02x}")).collect()
}
fn unhex(s: &str) -> Vec<u8> {
    (0..s.len() / 2).map(|i| u8::from_str_radix(&s[2 * i..2 * i + 2], 16).unwrap_or(0)).collect()
}
/// bytes as JSON: a string when valid UTF-8, {"hex": ".."} otherwise
fn bj(b: &[u8]) -> J {
    match std::str::from_utf8(b) {
        Ok(s) => J::String(s.to_string()),
        Err(_) => json!({ "hex": hex(b) }),
    }
}
fn jb(v: &J) -> Vec<u8> {
    match v {
        J::String(s) => s.as_bytes().to_vec(),
        J::Object(o) => unhex(o.get("hex").and_then(|h| h.as_str()).unwrap_or("")),
        _ => {
            eprintln!("replay: expected bytes (string or {{hex}}), got {v}");
            std::process::exit(2)
        }
    }
}

/// Model RESP value (independent of the code's type; strings are raw bytes).
#[derive(Clone, Debug, PartialEq, Eq, Hash)]
enum MV {
    Simple(Vec<u8>),
    Error(Vec<u8>),
    Int(i64),
    Bulk(Option<Vec<u8>>),
    Array(Vec<MV>),
    Null,
}

fn mv_from_resp(v: &RespValue) -> MV {
    match v {
        RespValue::SimpleString(s) => MV::Simple(s.as_bytes().to_vec()),
        RespValue::Error(s) => MV::Error(s.as_bytes().to_vec()),
        RespValue::Integer(i) => MV::Int(*i),
        RespValue::BulkString(b) => MV::Bulk(b.clone()),
        RespValue::Array(a) => MV::Array(a.iter().map(mv_from_resp).collect()),
        RespValue::Null => MV::Null,
    }
}
fn mv_to_resp(v: &MV) -> RespValue {
    match v {
        MV::Simple(s) => RespValue::SimpleString(String::from_utf8_lossy(s).into_owned()),
        MV::Error(s) => RespValue::Error(String::from_utf8_lossy(s).into_owned()),
        MV::Int(i) => RespValue::Integer(*i),
        MV::Bulk(b) => RespValue::BulkString(b.clone()),
        MV::Array(a) => RespValue::Array(a.iter().map(mv_to_resp).collect()),
        MV::Null => RespValue::Null,
    }
}
fn mv_json(v: &MV) -> J {
    match v {
        MV::Simple(s) => json!({ "s": bj(s) }),
        MV::Error(s) => json!({ "e": bj(s) }),
        MV::Int(i) => json!({ "i": i }),
        MV::Bulk(Some(b)) => json!({ "b": bj(b) }),
        MV::Bulk(None) => json!({ "b": null }),
        MV::Array(a) => json!({ "a": a.iter().map(mv_json).collect::<Vec<_>>() }),
        MV::Null => json!({ "n": true }),
    }
}
fn mv_from_json(j: &J) -> MV {
    let o = match j.as_object() {
        Some(o) => o,
        None => {
            eprintln!("replay: bad RESP value {j}");
            std::process::exit(2)
        }
    };
    if let Some(s) = o.get("s") {
        MV::Simple(jb(s))
    } else if let Some(s) = o.get("e") {
        MV::Error(jb(s))
    } else if let Some(i) = o.get("i") {
        MV::Int(i.as_i64().unwrap_or(0))
    } else if let Some(b) = o.get("b") {
        if b.is_null() {
            MV::Bulk(None)
        } else {
            MV::Bulk(Some(jb(b)))
        }
    } else if let Some(a) = o.get("a") {
        MV::Array(a.as_array().cloned().unwrap_or_default().iter().map(mv_from_json).collect())
    } else {
        MV::Null
    }
}

/// Independent RESP encoder. `nt` collects the ranges [lo, hi] of cut positions that are
/// non-trivial by C20's rule (strictly inside a bulk payload; between an array header and
/// the start of its last element).
fn mv_encode(v: &MV, out: &mut Vec<u8>, nt: &mut Vec<(usize, usize)>) {
    match v {
        MV::Simple(s) => {
            out.push(b'+');
            out.extend_from_slice(s);
            out.extend_from_slice(b"\r\n");
        }
        MV::Error(s) => {
            out.push(b'-');
            out.extend_from_slice(s);
            out.extend_from_slice(b"\r\n");
        }
        MV::Int(i) => out.extend_from_slice(format!(":{i}\r\n").as_bytes()),
        MV::Bulk(None) => out.extend_from_slice(b"$-1\r\n"),
        MV::Bulk(Some(p)) => {
            out.extend_from_slice(format!("${}\r\n", p.len()).as_bytes());
            let ps = out.len();
            out.extend_from_slice(p);
            let pe = out.len();
            if pe > ps + 1 {
                nt.push((ps + 1, pe - 1));
            }
            out.extend_from_slice(b"\r\n");
        }
        MV::Array(items) => {
            out.extend_from_slice(format!("*{}\r\n", items.len()).as_bytes());
            let he = out.len();
            let mut last_start = he;
            for it in items {
                last_start = out.len();
                mv_encode(it, out, nt);
            }
            if !items.is_empty() {
                nt.push((he, last_start));
            }
        }
        MV::Null => out.extend_from_slice(b"_\r\n"),
    }
}

/// selector tape: generated `Vec<u16>` read left to right; exhausted tape reads 0 (= the
/// first, simplest alternative), so shorter / smaller tapes mean simpler cases.
struct Tape<'a> {
    t: &'a [u16],
    i: usize,
}
impl<'a> Tape<'a> {
    fn new(t: &'a [u16]) -> Self {
        Tape { t, i: 0 }
    }
    fn pick(&mut self, n: usize) -> usize {
        let v = self.t.get(self.i).copied().unwrap_or(0);
        self.i += 1;
        pick_idx(v, n)
    }
}

/// A failure that cannot be reproduced when its case is run again on its own is not a
/// violation: say what tripped, write the evidence, exit 2.
fn inconclusive_exit(ev: &Evidence, case: &J, original: &str) -> ! {
    eprintln!(
        "INCONCLUSIVE: a case was judged failing during the campaign but did not fail again when re-run on its own (3 attempts); original judgement: {} ; case: {}",
        truncate(original, 1500),
        truncate(&case.to_string(), 600)
    );
    ev.write();
    use std::io::Write;
    let _ = std::io::stdout().flush();
    std::process::exit(2)
}

fn find_sub(h: &[u8], n: &[u8]) -> Option<usize> {
    if n.is_empty() {
        return Some(0);
    }
    if h.len() < n.len() {
        return None;
    }
    h.windows(n.len()).position(|w| w == n)
}

// =======================================================================================
// Model of the RESP decoder (C20): a port of the decoder's grammar with one quirk switch.
//   consume_on_incomplete = false : the specified behaviour — a partial frame leaves the
//                                   buffer untouched until it is complete;
//   consume_on_incomplete = true  : bytes read before "need more data" stay consumed
//                                   (known finding KF-C20-1).

#[derive(Debug, Clone, PartialEq)]
enum MDec {
    Val(MV),
    NeedMore,
    Err,
    Panic,
    Abort,
}

fn m_read_line<'a>(buf: &'a [u8], pos: &mut usize) -> Option<&'a [u8]> {
    let rest = &buf[*pos..];
    let p = rest.windows(2).position(|w| w == b"\r\n")?;
    *pos += p + 2;
    Some(&rest[..p])
}

fn m_inline_tokens(line: &str) -> Result<Vec<String>, ()> {
    let mut tokens = Vec::new();
    let mut cur = String::new();
    let mut in_q = false;
    let mut chars = line.chars();
    while let Some(c) = chars.next() {
        match c {
            '"' => in_q = !in_q,
            ' ' | '\t' if !in_q => {
                if !cur.is_empty() {
                    tokens.push(std::mem::take(&mut cur));
                }
            }
            '\\' if in_q => {
                if let Some(n) = chars.next() {
                    match n {
                        'n' => cur.push('\n'),
                        't' => cur.push('\t'),
                        'r' => cur.push('\r'),
                        '"' => cur.push('"'),
                        '\\' => cur.push('\\'),
                        o => {
                            cur.push('\\');
                            cur.push(o);
                        }
                    }
                }
            }
            o => cur.push(o),
        }
    }
    if !cur.is_empty() {
        tokens.push(cur);
    }
    if in_q {
        return Err(());
    }
    Ok(tokens)
}

fn m_decode(buf: &[u8], pos: &mut usize) -> MDec {
    if *pos >= buf.len() {
        return MDec::NeedMore;
    }
    let first = buf[*pos];
    let line = match m_read_line(buf, pos) {
        Some(l) => l,
        None => return MDec::NeedMore,
    };
    match first {
        b'+' | b'-' => match std::str::from_utf8(&line[1..]) {
            Ok(_) => MDec::Val(if first == b'+' { MV::Simple(line[1..].to_vec()) } else { MV::Error(line[1..].to_vec()) }),
            Err(_) => MDec::Err,
        },
        b':' => match std::str::from_utf8(&line[1..]).ok().and_then(|s| s.parse::<i64>().ok()) {
            Some(i) => MDec::Val(MV::Int(i)),
            None => MDec::Err,
        },
        b'$' => {
            let len = match std::str::from_utf8(&line[1..]).ok().and_then(|s| s.parse::<i64>().ok()) {
                Some(l) => l,
                None => return MDec::Err,
            };
            if len == -1 {
                return MDec::Val(MV::Bulk(None));
            }
            if len < -1 {
                // `len as usize + 2` overflows for -2 only (overflow checks on); other negative
                // lengths wait for 2^64-ish bytes
                return if len == -2 { MDec::Panic } else { MDec::NeedMore };
            }
            let len = len as usize;
            let avail = buf.len() - *pos;
            if avail < len.saturating_add(2) {
                return MDec::NeedMore;
            }
            let data = buf[*pos..*pos + len].to_vec();
            *pos += len;
            if &buf[*pos..*pos + 2] != b"\r\n" {
                return MDec::Err;
            }
            *pos += 2;
            MDec::Val(MV::Bulk(Some(data)))
        }
        b'*' => {
            let n = match std::str::from_utf8(&line[1..]).ok().and_then(|s| s.parse::<usize>().ok()) {
                Some(l) => l,
                None => return MDec::Err,
            };
            if n > (1 << 24) {
                return MDec::Abort;
            }
            let mut items = Vec::new();
            for _ in 0..n {
                match m_decode(buf, pos) {
                    MDec::Val(v) => items.push(v),
                    other => return other,
                }
            }
            MDec::Val(MV::Array(items))
        }
        b'_' => {
            if line.len() == 1 {
                MDec::Val(MV::Null)
            } else {
                MDec::Err
            }
        }
        _ => {
            let s = match std::str::from_utf8(line) {
                Ok(s) => s,
                Err(_) => return MDec::Err,
            };
            match m_inline_tokens(s) {
                Ok(t) if !t.is_empty() => MDec::Val(MV::Array(t.into_iter().map(|x| MV::Bulk(Some(x.into_bytes()))).collect())),
                _ => MDec::Err,
            }
        }
    }
}

/// What a connection observes: decoded frames and protocol-error replies, in order.
#[derive(Debug, Clone, PartialEq)]
enum Ev {
    Frame(MV),
    ProtoErr,
    Panic,
    Abort,
    Stuck,
}

fn ev_json(e: &Ev) -> J {
    match e {
        Ev::Frame(v) => mv_json(v),
        Ev::ProtoErr => json!("protocol-error"),
        Ev::Panic => json!("panic"),
        Ev::Abort => json!("abort"),
        Ev::Stuck => json!("no-progress"),
    }
}

/// the decoder loop of `handle_connection`, over the model decoder
fn model_loop(chunks: &[&[u8]], quirk: bool) -> Vec<Ev> {
    let mut buf: Vec<u8> = Vec::new();
    let mut evs = Vec::new();
    for c in chunks {
        buf.extend_from_slice(c);
        loop {
            let mut pos = 0;
            match m_decode(&buf, &mut pos) {
                MDec::Val(v) => {
                    buf.drain(..pos);
                    evs.push(Ev::Frame(v));
                }
                MDec::NeedMore => {
                    if quirk {
                        buf.drain(..pos);
                    }
                    break;
                }
                MDec::Err => {
                    buf.drain(..pos);
                    evs.push(Ev::ProtoErr);
                    break;
                }
                MDec::Panic => {
                    evs.push(Ev::Panic);
                    return evs;
                }
                MDec::Abort => {
                    evs.push(Ev::Abort);
                    return evs;
                }
            }
        }
    }
    evs
}

/// the decoder loop of `handle_connection` (src/protocol/server.rs), over the real decoder
fn code_loop(chunks: &[&[u8]]) -> Vec<Ev> {
    let mut buf = BytesMut::with_capacity(4096);
    let mut evs = Vec::new();
    let total: usize = chunks.iter().map(|c| c.len()).sum();
    let mut guard = 0usize;
    for c in chunks {
        buf.extend_from_slice(c);
        loop {
            guard += 1;
            if guard > 4 * total + 64 {
                evs.push(Ev::Stuck);
                return evs;
            }
            match catch(|| RespValue::decode(&mut buf)) {
                Ok(Ok(Some(v))) => evs.push(Ev::Frame(mv_from_resp(&v))),
                Ok(Ok(None)) | Ok(Err(RespError::Incomplete)) => break,
                Ok(Err(_)) => {
                    evs.push(Ev::ProtoErr);
                    break;
                }
                Err(_) => {
                    evs.push(Ev::Panic);
                    return evs;
                }
            }
        }
    }
    evs
}

fn chunks_of<'a>(s: &'a [u8], cuts: &[usize]) -> Vec<&'a [u8]> {
    let mut out = Vec::with_capacity(cuts.len() + 1);
    let mut prev = 0;
    for &c in cuts {
        if c > prev && c < s.len() {
            out.push(&s[prev..c]);
            prev = c;
        }
    }
    out.push(&s[prev..]);
    out
}

// =======================================================================================
// C20

/// generated top-level frame
#[derive(Clone, Debug)]
enum GF {
    Val(MV),
    /// inline command: rendered line (without CRLF) and the tokens it must decode to
    Inline(String, Vec<String>),
    /// a line (without CRLF) the decoder must refuse with a protocol error -- never a panic
    Refused(Vec<u8>),
}

const PAYLOAD_PIECES: &[&[u8]] = &[
    b"a", b"hello", b"\r\n", b"\r", b"\n", b"+OK", b"$3", b"*2", b":1", b"_", b"-1", b"\"", b" ", b"\xff", b"\x00", b"\xc3\xa9", b"PING", b"'", b"MATCH (n) RETURN n",
];
const SIMPLE_PIECES: &[&str] = &["OK", "PONG", "a", " ", "+", "$3", "*1", ":", "\"", "\u{e9}", "-"];
const INT_SET: &[i64] = &[0, 1, -1, 42, 1000, i64::MAX, i64::MIN, -10];
const INLINE_FIRST: &[&str] = &["PING", "ECHO", "GRAPH.QUERY", "hello", "a", "x1"];
const INLINE_REST: &[(&str, &str)] = &[
    ("foo", "foo"),
    ("\"hello world\"", "hello world"),
    ("\"a\\nb\"", "a\nb"),
    ("\"say \\\"hi\\\"\"", "say \"hi\""),
    ("\"t\\tx\"", "t\tx"),
    ("\"back\\\\slash\"", "back\\slash"),
    ("'q'", "'q'"),
    ("default", "default"),
    ("\"MATCH (n)-[:R]->(m) RETURN n\"", "MATCH (n)-[:R]->(m) RETURN n"),
    ("$5", "$5"),
    ("*1", "*1"),
    ("\"c\\rd\"", "c\rd"),
    ("\"u\\zv\"", "u\\zv"),
    ("\"h\u{e9}llo w\u{20ac}rld \u{1F600}\"", "h\u{e9}llo w\u{20ac}rld \u{1F600}"),
    ("\u{1F600}\u{1F600}", "\u{1F600}\u{1F600}"),
    (
        "\"\u{e9}\u{20ac}\u{e9}\u{20ac}\u{e9}\u{20ac}\u{e9}\u{20ac}\u{e9}\u{20ac}\u{e9}\u{20ac}\u{e9}\u{20ac}\u{e9}\u{20ac}\u{e9}\u{20ac}\u{e9}\u{20ac}\u{e9}\u{20ac}\u{e9}\u{20ac}\u{e9}\u{20ac}\u{e9}\u{20ac}\u{e9}\u{20ac}\u{e9}\u{20ac} tail\"",
        "\u{e9}\u{20ac}\u{e9}\u{20ac}\u{e9}\u{20ac}\u{e9}\u{20ac}\u{e9}\u{20ac}\u{e9}\u{20ac}\u{e9}\u{20ac}\u{e9}\u{20ac}\u{e9}\u{20ac}\u{e9}\u{20ac}\u{e9}\u{20ac}\u{e9}\u{20ac}\u{e9}\u{20ac}\u{e9}\u{20ac}\u{e9}\u{20ac}\u{e9}\u{20ac} tail",
    ),
];
const INLINE_SEPS: &[&str] = &[" ", "  ", "\t"];


/// the multi-byte characters used to straddle byte offsets: 2, 3 and 4 bytes
const MB_CHARS: &[&str] = &["\u{e9}", "\u{20ac}", "\u{1F600}"];

/// An inline-command line (no CRLF) of about `len` bytes: ASCII filler words, a multi-byte
/// character of width MB_CHARS[wi] placed so that byte offset `b` falls `k` bytes into it
/// (k = 0: no such character), and quotes according to `mode`:
/// 0 none, 1 balanced "..", 2 opening " never closed, 3 lone " at the end, 4 balanced '..',
/// 5 lone ', 6 balanced ".." holding \" \\ \n escapes, 7 unclosed " with a trailing backslash,
/// 8 "..\" (escaped closing quote, so unclosed)
fn inline_line(len: usize, b: usize, wi: usize, k: usize, mode: usize) -> Vec<u8> {
    let ch = MB_CHARS[wi % MB_CHARS.len()].as_bytes();
    let mut line: Vec<u8> = Vec::with_capacity(len + 8);
    line.extend_from_slice(b"ECHO ");
    match mode {
        1 | 2 | 6 | 7 | 8 => line.push(b'"'),
        4 => line.push(b'\''),
        _ => {}
    }
    if mode == 6 {
        line.extend_from_slice(b"x\\\"y\\\\z\\n");
    }
    let fill = |line: &mut Vec<u8>, upto: usize| {
        while line.len() < upto {
            let i = line.len();
            line.push(if i % 9 == 8 { b' ' } else { b'a' + (i % 7) as u8 });
        }
    };
    if k > 0 && k < ch.len() && b >= k && b - k >= line.len() {
        fill(&mut line, b - k);
        line.extend_from_slice(ch);
    }
    let tail = match mode {
        1 | 6 | 4 | 3 | 5 | 7 => 1,
        8 => 2,
        _ => 0,
    };
    let upto = len.saturating_sub(tail).max(line.len());
    fill(&mut line, upto);
    match mode {
        1 | 6 => line.push(b'"'),
        4 => line.push(b'\''),
        3 => line.push(b'"'),
        5 => line.push(b'\''),
        7 => line.push(b'\\'),
        8 => line.extend_from_slice(b"\\\""),
        _ => {}
    }
    line
}

fn gen_payload(t: &mut Tape, max_pieces: usize) -> Vec<u8> {
    let n = t.pick(max_pieces + 1);
    let mut p = Vec::new();
    for _ in 0..n {
        p.extend_from_slice(PAYLOAD_PIECES[t.pick(PAYLOAD_PIECES.len())]);
    }
    p
}
fn gen_simple(t: &mut Tape) -> Vec<u8> {
    let n = t.pick(4);
    let mut s = String::new();
    for _ in 0..n {
        s.push_str(SIMPLE_PIECES[t.pick(SIMPLE_PIECES.len())]);
    }
    s.into_bytes()
}
fn gen_value(t: &mut Tape, depth: usize, small: bool) -> MV {
    let k = t.pick(if depth >= 3 { 6 } else { 8 });
    match k {
        0 => MV::Bulk(Some(gen_payload(t, if small { 2 } else { 5 }))),
        1 => MV::Simple(gen_simple(t)),
        2 => MV::Int(INT_SET[t.pick(INT_SET.len())]),
        3 => MV::Bulk(None),
        4 => MV::Null,
        5 => MV::Error(gen_simple(t)),
        _ => {
            let n = t.pick(if small { 3 } else { 4 });
            MV::Array((0..n).map(|_| gen_value(t, depth + 1, small)).collect())
        }
    }
}
fn gen_inline(t: &mut Tape) -> GF {
    let first = INLINE_FIRST[t.pick(INLINE_FIRST.len())];
    let mut line = first.to_string();
    let mut toks = vec![first.to_string()];
    let n = t.pick(4);
    for _ in 0..n {
        line.push_str(INLINE_SEPS[t.pick(INLINE_SEPS.len())]);
        let (r, e) = INLINE_REST[t.pick(INLINE_REST.len())];
        line.push_str(r);
        toks.push(e.to_string());
    }
    GF::Inline(line, toks)
}
fn c20_frames(tape: &[u16]) -> Vec<GF> {
    let mut t = Tape::new(tape);
    let small = t.pick(5) < 2;
    let n = 1 + if small { t.pick(2) } else { t.pick(6) };
    let mut frames: Vec<GF> = (0..n)
        .map(|_| {
            if t.pick(10) >= 8 {
                gen_inline(&mut t)
            } else {
                GF::Val(gen_value(&mut t, 0, small))
            }
        })
        .collect();
    // one stream in eight also carries a refused inline line: unbalanced quote and a
    // multi-byte character straddling an offset in 60..=70 or 124..=132
    if !small && t.pick(8) == 0 {
        let offs: Vec<usize> = (60..=70).chain(124..=132).collect();
        let b = offs[t.pick(offs.len())];
        let wi = t.pick(3);
        let k = 1 + t.pick(wi + 1);
        let mode = [2usize, 3, 7, 8, 5][t.pick(5)];
        let len = [b + 6, 140, 300][t.pick(3)].max(b + 6);
        let line = inline_line(len, b, wi, k, mode);
        let at = t.pick(frames.len() + 1);
        frames.insert(at, GF::Refused(line));
    }
    frames
}

struct StreamInfo {
    stream: Vec<u8>,
    /// the stream holds a line the decoder must refuse: what the loop observes then depends
    /// on the chunking (it stops decoding a read after a protocol error), so the expected
    /// events come from the reference decoder loop per split
    has_refused: bool,
    expected: Vec<Ev>,
    /// ranges of non-trivial cut positions
    nt: Vec<(usize, usize)>,
}

fn c20_stream(frames: &[GF]) -> StreamInfo {
    let mut stream = Vec::new();
    let mut nt = Vec::new();
    let mut expected = Vec::new();
    let mut has_refused = false;
    for f in frames {
        match f {
            GF::Refused(line) => {
                stream.extend_from_slice(line);
                stream.extend_from_slice(b"\r\n");
                has_refused = true;
            }
            GF::Val(v) => {
                mv_encode(v, &mut stream, &mut nt);
                expected.push(Ev::Frame(v.clone()));
            }
            GF::Inline(line, toks) => {
                stream.extend_from_slice(line.as_bytes());
                stream.extend_from_slice(b"\r\n");
                expected.push(Ev::Frame(MV::Array(toks.iter().map(|t| MV::Bulk(Some(t.clone().into_bytes()))).collect())));
            }
        }
    }
    StreamInfo { stream, has_refused, expected, nt }
}

fn gf_json(f: &GF) -> J {
    match f {
        GF::Val(v) => mv_json(v),
        GF::Inline(l, _) => json!({ "inline": l }),
        GF::Refused(l) => json!({ "refused_line": bj(l) }),
    }
}

fn evs_json(e: &[Ev]) -> J {
    J::Array(e.iter().map(ev_json).collect())
}

enum SplitRes {
    Ok,
    Kf,
    Fail(String),
}

/// oracle (b) for one split
fn c20_split(info: &StreamInfo, cuts: &[usize], kf_on: bool) -> SplitRes {
    let chunks = chunks_of(&info.stream, cuts);
    let got = code_loop(&chunks);
    let per_split;
    let expected: &Vec<Ev> = if info.has_refused {
        per_split = model_loop(&chunks, false);
        &per_split
    } else {
        &info.expected
    };
    if got == *expected {
        return SplitRes::Ok;
    }
    if kf_on && got == model_loop(&chunks, true) {
        return SplitRes::Kf;
    }
    SplitRes::Fail(format!(
        "stream {:?} delivered in chunks cut at {:?}: decoder loop produced {} but {} {}",
        String::from_utf8_lossy(&info.stream),
        cuts,
        evs_json(&got),
        if info.has_refused { "the specified decoder loop (frames, protocol error for the refused line, rest on the next read) gives" } else { "the frames sent were" },
        evs_json(expected)
    ))
}

/// oracle (a): encode is the RESP wire form and decode(encode(v)) == v
fn c20_roundtrip(v: &MV) -> Result<(), String> {
    let rv = mv_to_resp(v);
    let mut enc = Vec::new();
    let r = catch(|| rv.encode(&mut enc));
    if !matches!(r, Ok(Ok(()))) {
        return Err(format!("encode failed on {}: {r:?}", mv_json(v)));
    }
    let mut mine = Vec::new();
    mv_encode(v, &mut mine, &mut Vec::new());
    if enc != mine {
        return Err(format!("encode({}) = {:?}, RESP wire form is {:?}", mv_json(v), String::from_utf8_lossy(&enc), String::from_utf8_lossy(&mine)));
    }
    let mut b = BytesMut::from(&enc[..]);
    match catch(|| RespValue::decode(&mut b)) {
        Ok(Ok(Some(d))) if d == rv && b.is_empty() => Ok(()),
        other => Err(format!("decode(encode({})) = {:?} with {} bytes left", mv_json(v), other, b.len())),
    }
}

/// all splits explored for one stream: (class, cuts)
fn c20_splits(n: usize, cutsel: &[Vec<u16>]) -> Vec<(&'static str, Vec<usize>)> {
    let mut out = Vec::new();
    if n <= 1 {
        out.push(("unsplit", vec![]));
        return out;
    }
    if n <= 14 {
        for mask in 0u32..(1u32 << (n - 1)) {
            let cuts: Vec<usize> = (1..n).filter(|c| mask & (1 << (c - 1)) != 0).collect();
            out.push(("all_splits_small_stream", cuts));
        }
    } else {
        out.push(("unsplit", vec![]));
        for c in 1..n {
            out.push(("single_cut", vec![c]));
        }
        out.push(("byte_at_a_time", (1..n).collect()));
        for sel in cutsel {
            let mut cuts: Vec<usize> = sel.iter().map(|s| 1 + pick_idx(*s, n - 1)).collect();
            cuts.sort();
            cuts.dedup();
            out.push(("random_multi_cut", cuts));
        }
    }
    out
}

fn cut_is_nontrivial(nt: &[(usize, usize)], cuts: &[usize]) -> bool {
    cuts.iter().any(|c| nt.iter().any(|(lo, hi)| c >= lo && c <= hi))
}

/// strict check of a replay / witness / corpus case. Ok(nontrivial) or Err(msg)
fn c20_case_check(case: &J, kf_on: bool) -> Result<(bool, bool), String> {
    if case.get("live_big").and_then(|l| l.as_bool()).unwrap_or(false) {
        return match BigCase::from_json(case).run() {
            LiveVerdict::Held => Ok((true, false)),
            LiveVerdict::Violation(m) => Err(m),
            LiveVerdict::Inconclusive(m) => {
                eprintln!("INCONCLUSIVE: {m}");
                std::process::exit(2)
            }
        };
    }
    if let Some(v) = case.get("roundtrip") {
        let mv = mv_from_json(v);
        c20_roundtrip(&mv)?;
        return Ok((true, false));
    }
    let stream = jb(&case["stream"]);
    let cuts: Vec<usize> = case["cuts"].as_array().cloned().unwrap_or_default().iter().filter_map(|c| c.as_u64().map(|x| x as usize)).collect();
    // expected frames = what the specified decoder reads from the whole stream
    let expected = model_loop(&[&stream[..]], false);
    let has_refused = expected.iter().any(|e| !matches!(e, Ev::Frame(_)));
    let info = StreamInfo { stream, has_refused, expected, nt: Vec::new() };
    let live = case.get("live").and_then(|l| l.as_bool()).unwrap_or(false);
    if live {
        return match c20_live_one(&info.stream, &cuts, kf_on) {
            Ok(k) => Ok((true, k)),
            Err(LiveErr::Violation(m)) => Err(m),
            Err(LiveErr::Inconclusive(m)) => {
                eprintln!("INCONCLUSIVE: {m}");
                std::process::exit(2)
            }
        };
    }
    match c20_split(&info, &cuts, kf_on) {
        SplitRes::Ok => Ok((!cuts.is_empty(), false)),
        SplitRes::Kf => Ok((true, true)),
        SplitRes::Fail(m) => Err(m),
    }
}

fn c20(args: &Args) {
    let mut ev = Evidence::new(
        args,
        "exploration",
        "sequences of 1-6 well-formed frames (nested arrays <= depth 3, empty arrays, null/empty/binary bulk strings whose payload contains CRLF and RESP-looking text, integers at the i64 boundaries, simple strings, errors, inline commands with quotes and escapes) built from a proptest selector tape; every stream is delivered through the replicated decoder loop of handle_connection under ALL 2^(n-1) splits when n <= 14 bytes, else unsplit + every single cut + byte-at-a-time + random multi-cuts, and the decoded frame list must equal the frames sent; every generated value also goes through decode(encode(v)) == v and encode == wire form. Non-trivial = a split with a cut strictly inside a bulk payload or between an array header and the start of its last element; distinct = distinct (stream, cut set).",
    );
    let kf = Known::load(args);

    if let Some(p) = &args.replay {
        let case = load_replay(p);
        ev.case();
        match catch(|| c20_case_check(&case, false)) {
            Ok(Ok(_)) => println!("replay: property held"),
            Ok(Err(m)) | Err(m) => {
                report_violation(&mut ev, &case, &m);
            }
        }
        ev.nontrivial(&case.to_string());
        ev.nontrivial(&"replay");
        ev.sample(case);
        finish(&ev);
    }

    // known-finding witnesses (strict)
    if let Some(w) = witness_case(&kf, "KF-C20-1") {
        let still = !matches!(catch(|| c20_case_check(&w, false)), Ok(Ok(_)));
        kf.witness_result(&mut ev, "KF-C20-1", still);
    }
    let kf_on = kf.active("KF-C20-1");

    // regression corpus
    for (p, case) in corpus_cases("C20") {
        ev.case();
        ev.class("corpus");
        match catch(|| c20_case_check(&case, kf_on)) {
            Ok(Ok((nt, hit))) => {
                if nt {
                    ev.nontrivial(&case.to_string());
                }
                if hit {
                    ev.kf_hit("KF-C20-1");
                }
            }
            Ok(Err(m)) | Err(m) => {
                // live cases: only a failure that shows again counts
                let is_live = case.get("live_big").is_some() || case.get("live").is_some();
                if is_live && !(0..3).any(|_| matches!(catch(|| c20_case_check(&case, kf_on)), Ok(Err(_)) | Err(_))) {
                    inconclusive_exit(&ev, &case, &m);
                }
                report_violation(&mut ev, &case, &format!("{m} (corpus {})", p.display()));
                finish(&ev);
            }
        }
    }

    use proptest::prelude::*;
    let n_streams = args.tier.pick(50_000u32, 400_000u32);
    let n_rand = args.tier.pick(16usize, 48usize);
    let strat = (proptest::collection::vec(any::<u16>(), 4..56), proptest::collection::vec(proptest::collection::vec(any::<u16>(), 2..7), n_rand..=n_rand));
    let evc = RefCell::new(&mut ev);
    let res = search(args.seed, n_streams, &strat, |(tape, cutsel)| {
        let frames = c20_frames(tape);
        let info = c20_stream(&frames);
        let mut e = evc.borrow_mut();
        // self-check of the reference: the specified decoder reads exactly the frames sent
        if !info.has_refused && model_loop(&[&info.stream[..]], false) != info.expected {
            eprintln!("INCONCLUSIVE: harness reference decoder disagrees with the generator on {:?}", String::from_utf8_lossy(&info.stream));
            std::process::exit(2);
        }
        for f in &frames {
            if let GF::Val(v) = f {
                e.case();
                e.class("roundtrip");
                if let Err(m) = c20_roundtrip(v) {
                    e.frozen = true;
                    return Err(m);
                }
            }
        }
        e.class(if info.stream.len() <= 14 { "stream_le_14_bytes" } else { "stream_gt_14_bytes" });
        if info.has_refused {
            e.class("stream_with_refused_inline_line");
        }
        let mut sampled = false;
        for (class, cuts) in c20_splits(info.stream.len(), cutsel) {
            e.case();
            e.class(class);
            let nt = cut_is_nontrivial(&info.nt, &cuts);
            if nt {
                e.nontrivial(&(&info.stream, &cuts));
                e.class("nontrivial_split");
                if !sampled && e.want_sample() && frames.len() >= 2 && cuts.len() >= 2 {
                    sampled = true;
                    e.sample(json!({"frames": frames.iter().map(gf_json).collect::<Vec<_>>(), "stream": bj(&info.stream), "cuts": cuts}));
                }
            }
            match c20_split(&info, &cuts, kf_on) {
                SplitRes::Ok => {}
                SplitRes::Kf => e.kf_hit("KF-C20-1"),
                SplitRes::Fail(m) => {
                    e.frozen = true;
                    return Err(m);
                }
            }
        }
        Ok(())
    });
    drop(evc);

    if let Some(((tape, cutsel), msg)) = res {
        ev.frozen = true;
        let mut frames = c20_frames(&tape);
        // drop whole frames while some split of the remaining stream still fails
        let any_fail = |fs: &[GF]| -> bool {
            let inf = c20_stream(fs);
            fs.iter().any(|f| matches!(f, GF::Val(v) if c20_roundtrip(v).is_err()))
                || c20_splits(inf.stream.len(), &cutsel).iter().any(|(_, c)| matches!(c20_split(&inf, c, kf_on), SplitRes::Fail(_)))
        };
        if any_fail(&frames) {
            frames = shrink_vec(frames, &any_fail);
        }
        let info = c20_stream(&frames);
        // a round-trip failure?
        for f in &frames {
            if let GF::Val(v) = f {
                if let Err(m) = c20_roundtrip(v) {
                    report_violation(&mut ev, &json!({"roundtrip": mv_json(v)}), &m);
                    finish(&ev);
                }
            }
        }
        // find the failing split of the shrunk stream and minimise its cut set
        let mut found: Option<Vec<usize>> = None;
        for (_, cuts) in c20_splits(info.stream.len(), &cutsel) {
            if matches!(c20_split(&info, &cuts, kf_on), SplitRes::Fail(_)) {
                found = Some(cuts);
                break;
            }
        }
        match found {
            Some(cuts) => {
                let fails = |c: &[usize]| matches!(c20_split(&info, c, kf_on), SplitRes::Fail(_));
                let min = shrink_vec(cuts, &fails);
                let m2 = match c20_split(&info, &min, kf_on) {
                    SplitRes::Fail(m) => m,
                    _ => msg,
                };
                report_violation(&mut ev, &json!({"stream": bj(&info.stream), "cuts": min, "frames": frames.iter().map(gf_json).collect::<Vec<_>>()}), &m2);
            }
            None => {
                // neither the shrunk nor the re-evaluated case fails any more
                inconclusive_exit(&ev, &json!({"stream": bj(&info.stream), "frames": frames.iter().map(gf_json).collect::<Vec<_>>()}), &msg);
            }
        }
        finish(&ev);
    }

    // live part with big frames and straddling writes: every tier
    if let Some((case, msg)) = c20_live_big(args, &mut ev) {
        report_violation(&mut ev, &case.json(), &msg);
        finish(&ev);
    }
    if args.tier == Tier::Thorough || std::env::var("VC_LIVE").is_ok() {
        c20_live(args, &mut ev, kf_on);
    }
    finish(&ev);
}

// --- live server (thorough tier) -------------------------------------------------------

static LIVE_PORT: std::sync::OnceLock<u16> = std::sync::OnceLock::new();

/// start a real RespServer on a loopback port (once per process) and return the port
fn live_server_port() -> u16 {
    *LIVE_PORT.get_or_init(|| {
        use samyama::protocol::{RespServer, ServerConfig};
        let port = {
            let l = std::net::TcpListener::bind("127.0.0.1:0").expect("bind loopback");
            l.local_addr().unwrap().port()
        };
        std::thread::spawn(move || {
            let rt = tokio::runtime::Builder::new_multi_thread().worker_threads(2).enable_all().build().unwrap();
            rt.block_on(async move {
                let store = std::sync::Arc::new(tokio::sync::RwLock::new(samyama::graph::GraphStore::new()));
                let cfg = ServerConfig { address: "127.0.0.1".into(), port, max_connections: 100, data_path: None };
                let server = RespServer::new(cfg, store);
                let _ = server.start().await;
            });
        });
        for _ in 0..500 {
            if std::net::TcpStream::connect(("127.0.0.1", port)).is_ok() {
                return port;
            }
            std::thread::sleep(std::time::Duration::from_millis(10));
        }
        eprintln!("INCONCLUSIVE: live RespServer did not come up on 127.0.0.1:{port}");
        std::process::exit(2);
    })
}

/// strict reply reader used on the live socket and by C22: one frame from `b` at `pos`
fn strict_parse(b: &[u8], pos: &mut usize, depth: usize) -> Result<MV, String> {
    if depth > 64 {
        return Err("nesting deeper than 64".into());
    }
    if *pos >= b.len() {
        return Err("truncated: no type byte".into());
    }
    let t = b[*pos];
    let rest = &b[*pos + 1..];
    let le = match rest.windows(2).position(|w| w == b"\r\n") {
        Some(p) => p,
        None => return Err("truncated: header line without CRLF".into()),
    };
    let line = &rest[..le];
    *pos += 1 + le + 2;
    let canon_uint = |l: &[u8]| -> Option<usize> {
        if l.is_empty() || !l.iter().all(|c| c.is_ascii_digit()) {
            return None;
        }
        std::str::from_utf8(l).ok()?.parse::<usize>().ok()
    };
    match t {
        b'+' => Ok(MV::Simple(line.to_vec())),
        b'-' => Ok(MV::Error(line.to_vec())),
        b':' => {
            let s = std::str::from_utf8(line).map_err(|_| "integer line is not ASCII".to_string())?;
            let digits = s.strip_prefix('-').unwrap_or(s);
            if digits.is_empty() || !digits.bytes().all(|c| c.is_ascii_digit()) {
                return Err(format!("malformed integer line {s:?}"));
            }
            s.parse::<i64>().map(MV::Int).map_err(|e| format!("integer out of range: {e}"))
        }
        b'$' => {
            if line == b"-1" {
                return Ok(MV::Bulk(None));
            }
            let n = canon_uint(line).ok_or_else(|| format!("malformed bulk length {:?}", String::from_utf8_lossy(line)))?;
            if b.len() < *pos + n + 2 {
                return Err(format!("truncated: bulk of {n} bytes, {} available", b.len() - *pos));
            }
            let data = b[*pos..*pos + n].to_vec();
            if &b[*pos + n..*pos + n + 2] != b"\r\n" {
                return Err("bulk payload not followed by CRLF".into());
            }
            *pos += n + 2;
            Ok(MV::Bulk(Some(data)))
        }
        b'*' => {
            let n = canon_uint(line).ok_or_else(|| format!("malformed array count {:?}", String::from_utf8_lossy(line)))?;
            let mut items = Vec::new();
            for _ in 0..n {
                items.push(strict_parse(b, pos, depth + 1)?);
            }
            Ok(MV::Array(items))
        }
        b'_' => {
            if line.is_empty() {
                Ok(MV::Null)
            } else {
                Err("null frame with trailing bytes".into())
            }
        }
        o => Err(format!("unknown type byte {:?}", o as char)),
    }
}

/// reply the command handler must give to a PING/ECHO frame (None: not a PING/ECHO command)
fn ping_echo_reply(frame: &MV) -> Option<MV> {
    let items = match frame {
        MV::Array(a) => a,
        _ => return None,
    };
    let arg = |i: usize| -> Option<Vec<u8>> {
        match items.get(i) {
            Some(MV::Bulk(Some(b))) => Some(b.clone()),
            _ => None,
        }
    };
    let name = String::from_utf8(arg(0)?).ok()?.to_uppercase();
    match name.as_str() {
        "PING" => {
            if items.len() > 1 {
                let m = arg(1)?;
                String::from_utf8(m.clone()).ok()?;
                Some(MV::Bulk(Some(m)))
            } else {
                Some(MV::Simple(b"PONG".to_vec()))
            }
        }
        "ECHO" => Some(MV::Bulk(Some(arg(1)?))),
        _ => None,
    }
}

/// the structural trigger of KF-C20-1: some chunk boundary leaves the decoder holding a
/// partial frame whose `$n` / `*n` header line is already complete
fn c20_cut_triggers_kf(stream: &[u8], cuts: &[usize]) -> bool {
    // frame spans by the reference decoder
    let mut spans = Vec::new();
    let mut pos = 0;
    while pos < stream.len() {
        let start = pos;
        match m_decode(stream, &mut pos) {
            MDec::Val(_) => spans.push((start, pos)),
            _ => break,
        }
    }
    cuts.iter().any(|&c| {
        spans.iter().any(|&(s, e)| {
            if !(s < c && c < e) || !(stream[s] == b'$' || stream[s] == b'*') {
                return false;
            }
            match stream[s..e].windows(2).position(|w| w == b"\r\n") {
                Some(h) => c >= s + h + 2,
                None => false,
            }
        })
    })
}

/// one pipeline on the live server. Ok(true) = skipped as known finding, Ok(false) = held.
enum LiveErr {
    /// the bytes on the wire are wrong / the connection was closed early
    Violation(String),
    /// nothing wrong was seen, but the run could not be completed (stall, connect failure)
    Inconclusive(String),
}

/// Verdict rule of the live pipelines: the reply bytes must at all times be a prefix of the
/// (unique) encoding of the expected replies. A deviating byte, end of stream before all
/// replies, or surplus bytes is a violation. A correct prefix followed by 60 s without a
/// byte on an open connection, or a failing connect/write, is inconclusive (exit 2).
fn c20_live_one(stream: &[u8], cuts: &[usize], kf_on: bool) -> Result<bool, LiveErr> {
    use std::io::{Read, Write};
    let frames = model_loop(&[stream], false);
    let mut expected = Vec::new();
    for f in &frames {
        match f {
            Ev::Frame(v) => match ping_echo_reply(v) {
                Some(r) => expected.push(r),
                None => {
                    eprintln!("live case holds a frame that is not PING/ECHO");
                    std::process::exit(2)
                }
            },
            _ => {
                eprintln!("live case is not well-formed");
                std::process::exit(2)
            }
        }
    }
    if kf_on && c20_cut_triggers_kf(stream, cuts) {
        return Ok(true);
    }
    let port = live_server_port();
    let mut exp_bytes = Vec::new();
    for r in &expected {
        mv_encode(r, &mut exp_bytes, &mut Vec::new());
    }
    let mut s = std::net::TcpStream::connect(("127.0.0.1", port)).map_err(|e| LiveErr::Inconclusive(format!("connect to the loopback server: {e}")))?;
    s.set_nodelay(true).ok();
    s.set_read_timeout(Some(std::time::Duration::from_millis(200))).ok();
    let chunks = chunks_of(stream, cuts);
    for (i, c) in chunks.iter().enumerate() {
        s.write_all(c).map_err(|e| LiveErr::Inconclusive(format!("write to the loopback server: {e}")))?;
        s.flush().ok();
        if i + 1 < chunks.len() {
            std::thread::sleep(std::time::Duration::from_millis(2));
        }
    }
    // read while the bytes are a proper prefix of the expected reply stream
    let mut got: Vec<u8> = Vec::new();
    let mut idle = 0u32;
    let mut eof = false;
    loop {
        let mut tmp = [0u8; 4096];
        match s.read(&mut tmp) {
            Ok(0) => {
                eof = true;
                break;
            }
            Ok(k) => {
                got.extend_from_slice(&tmp[..k]);
                idle = 0;
            }
            Err(e) if e.kind() == std::io::ErrorKind::WouldBlock || e.kind() == std::io::ErrorKind::TimedOut || e.kind() == std::io::ErrorKind::Interrupted => idle += 1,
            Err(_) => {
                eof = true;
                break;
            }
        }
        if !exp_bytes.starts_with(&got) {
            break; // wrong or surplus bytes: no need to wait for more
        }
        if got.len() == exp_bytes.len() && idle >= 1 {
            break; // complete, and a grace read brought nothing more
        }
        if idle >= 300 {
            break; // 60 s without a byte
        }
    }
    if got == exp_bytes {
        return Ok(false);
    }
    if exp_bytes.starts_with(&got) && !eof {
        return Err(LiveErr::Inconclusive(format!(
            "live server: pipeline {:?} cut at {:?}: {} of {} reply bytes arrived, all correct, then nothing for 60 s on an open connection",
            String::from_utf8_lossy(stream),
            cuts,
            got.len(),
            exp_bytes.len()
        )));
    }
    let mut parsed = Vec::new();
    let mut pos = 0;
    let mut tail = String::new();
    while pos < got.len() {
        match strict_parse(&got, &mut pos, 0) {
            Ok(v) => parsed.push(v),
            Err(e) => {
                tail = format!(" followed by bytes that are not a frame ({e})");
                break;
            }
        }
    }
    Err(LiveErr::Violation(format!(
        "live server: pipeline {:?} written in chunks cut at {:?} was answered {}{}{} ; expected one reply per command, in order: {}",
        String::from_utf8_lossy(stream),
        cuts,
        J::Array(parsed.iter().map(mv_json).collect()),
        tail,
        if eof { " and the connection was closed" } else { "" },
        J::Array(expected.iter().map(mv_json).collect())
    )))
}

fn c20_live(args: &Args, ev: &mut Evidence, kf_on: bool) {
    use proptest::prelude::*;
    let n = 500usize;
    let strat = (proptest::collection::vec(any::<u16>(), 24), proptest::collection::vec(any::<u16>(), 0..6));
    let cases = generate(args.seed ^ 0x11fe, n, &strat);
    for (tape, cutsel) in cases {
        let mut t = Tape::new(&tape);
        let ncmd = 1 + t.pick(6);
        let mut stream = Vec::new();
        for _ in 0..ncmd {
            let frame = match t.pick(4) {
                0 => MV::Array(vec![MV::Bulk(Some(b"PING".to_vec()))]),
                1 => {
                    let words: [&[u8]; 4] = [b"hi", b"hello world", b"a\r\nb", b"+OK"];
                    MV::Array(vec![MV::Bulk(Some(b"PING".to_vec())), MV::Bulk(Some(words[t.pick(4)].to_vec()))])
                }
                2 => MV::Array(vec![MV::Bulk(Some(b"ECHO".to_vec())), MV::Bulk(Some(gen_payload(&mut t, 4)))]),
                _ => {
                    stream.extend_from_slice(b"PING\r\n");
                    continue;
                }
            };
            mv_encode(&frame, &mut stream, &mut Vec::new());
        }
        let nlen = stream.len();
        let mut cuts: Vec<usize> = cutsel.iter().map(|s| 1 + pick_idx(*s, nlen - 1)).collect();
        cuts.sort();
        cuts.dedup();
        ev.case();
        ev.class("live_pipeline");
        if c20_cut_triggers_kf(&stream, &cuts) {
            ev.nontrivial(&("live", &stream, &cuts));
        }
        match c20_live_one(&stream, &cuts, kf_on) {
            Ok(true) => {
                ev.kf_hit("KF-C20-1");
                ev.class("live_prescreened_known_finding");
            }
            Ok(false) => {}
            Err(LiveErr::Inconclusive(m)) => {
                eprintln!("INCONCLUSIVE: {m}");
                ev.write();
                std::process::exit(2);
            }
            Err(LiveErr::Violation(m)) => {
                ev.frozen = true;
                let violates = |c: &[usize]| matches!(c20_live_one(&stream, c, kf_on), Err(LiveErr::Violation(_)));
                // only a failure that shows again with the pipeline run on its own counts
                if !(0..3).any(|_| violates(&cuts)) {
                    inconclusive_exit(ev, &json!({"live": true, "stream": bj(&stream), "cuts": cuts}), &m);
                }
                // minimise the cut set (each trial is a fresh connection)
                let min = shrink_vec(cuts.clone(), &violates);
                let m2 = match c20_live_one(&stream, &min, kf_on) {
                    Err(LiveErr::Violation(m2)) => m2,
                    _ => m,
                };
                report_violation(ev, &json!({"live": true, "stream": bj(&stream), "cuts": min}), &m2);
                return;
            }
        }
    }
}

// =======================================================================================
// =======================================================================================
// C21

use vcheck::forkrun::{alloc_largest, alloc_peak_since, alloc_reset, run_isolated, Outcome, HARD_CAP};

const C21_ALPHA: &[u8] = b"+-:$*_0129\r\na";
const C21_MAXLEN: u32 = 6;
const C21_HARD_CAP: usize = 1 << 30;

fn c21_budget(len: usize) -> usize {
    64 * 1024 + 64 * len
}

fn c21_space() -> u64 {
    (0..=C21_MAXLEN).map(|l| (C21_ALPHA.len() as u64).pow(l)).sum()
}
/// idx-th string of the exhaustive domain (by length, then lexicographic)
fn c21_nth(mut idx: u64) -> Vec<u8> {
    let a = C21_ALPHA.len() as u64;
    let mut len = 0u32;
    loop {
        let c = a.pow(len);
        if idx < c {
            break;
        }
        idx -= c;
        len += 1;
    }
    let mut s = vec![0u8; len as usize];
    for k in (0..len as usize).rev() {
        s[k] = C21_ALPHA[(idx % a) as usize];
        idx /= a;
    }
    s
}

/// generated C21 input: `prefix` repeated `repeat` times, then `body`
#[derive(Clone, Debug)]
struct MCase {
    prefix: Vec<u8>,
    repeat: usize,
    body: Vec<u8>,
    class: &'static str,
}
impl MCase {
    fn plain(b: Vec<u8>, class: &'static str) -> Self {
        MCase { prefix: Vec::new(), repeat: 0, body: b, class }
    }
    fn input(&self) -> Vec<u8> {
        let mut v = Vec::with_capacity(self.prefix.len() * self.repeat + self.body.len());
        for _ in 0..self.repeat {
            v.extend_from_slice(&self.prefix);
        }
        v.extend_from_slice(&self.body);
        v
    }
    fn json(&self) -> J {
        if self.repeat == 0 {
            json!({ "input": bj(&self.body) })
        } else {
            json!({"prefix": bj(&self.prefix), "repeat": self.repeat, "body": bj(&self.body)})
        }
    }
    fn from_json(j: &J) -> MCase {
        if let Some(i) = j.get("input") {
            MCase::plain(jb(i), "replay")
        } else {
            MCase { prefix: jb(&j["prefix"]), repeat: j["repeat"].as_u64().unwrap_or(0) as usize, body: jb(&j["body"]), class: "replay" }
        }
    }
}

/// verdict of one decode call, measured in the worker:
/// V value / N need more / E protocol error / P panic / C "capacity overflow" panic /
/// A allocation above the budget / R returned value does not survive encode -> decode
fn c21_eval(input: &[u8]) -> (u8, usize, usize, String) {
    let mut buf = BytesMut::from(input);
    let base = alloc_reset();
    let r = catch(|| RespValue::decode(&mut buf));
    let largest = alloc_largest();
    let peak = alloc_peak_since(base);
    let budget = c21_budget(input.len());
    match r {
        Err(m) => (if m.contains("capacity overflow") { b'C' } else { b'P' }, largest, peak, m),
        Ok(res) => {
            if largest > budget || peak > budget {
                return (b'A', largest, peak, String::new());
            }
            match res {
                Ok(Some(v)) => {
                    let mut enc = Vec::new();
                    let stable = catch(|| {
                        if v.encode(&mut enc).is_err() {
                            return false;
                        }
                        let mut b2 = BytesMut::from(&enc[..]);
                        match RespValue::decode(&mut b2) {
                            Ok(Some(v2)) if b2.is_empty() => {
                                // a simple string / error holding a lone CR or LF is not a RESP value
                                // an encoder has to preserve; it must still settle after one round
                                v2 == v || {
                                    let mut enc2 = Vec::new();
                                    v2.encode(&mut enc2).is_ok() && enc2 == enc
                                }
                            }
                            _ => false,
                        }
                    });
                    match stable {
                        Ok(true) => (b'V', largest, peak, String::new()),
                        Ok(false) => (b'R', largest, peak, format!("decoded {v:?}; its encoding {:?} does not decode back to it", String::from_utf8_lossy(&enc))),
                        Err(m) => (b'P', largest, peak, format!("re-encode/decode panicked: {m}")),
                    }
                }
                Ok(None) | Err(RespError::Incomplete) => (b'N', largest, peak, String::new()),
                Err(e) => (b'E', largest, peak, e.to_string()),
            }
        }
    }
}

fn c21_child_init() {
    use std::sync::atomic::{AtomicBool, Ordering};
    static DONE: AtomicBool = AtomicBool::new(false);
    if !DONE.swap(true, Ordering::Relaxed) {
        HARD_CAP.store(C21_HARD_CAP, Ordering::Relaxed);
        unsafe {
            let rl = libc::rlimit { rlim_cur: 0, rlim_max: 0 };
            libc::setrlimit(libc::RLIMIT_CORE, &rl);
            let devnull = libc::open(b"/dev/null\0".as_ptr() as *const libc::c_char, libc::O_WRONLY);
            if devnull >= 0 {
                libc::dup2(devnull, 2);
                libc::close(devnull);
            }
        }
    }
}

#[derive(Debug, PartialEq, Clone, Copy)]
enum ScanEnd {
    Value,
    NeedMore,
    ProtoErr,
    NegBulkPanic,
    CapOverflow,
    HardCap,
}
#[derive(Debug, Clone, Copy)]
struct Scan {
    end: ScanEnd,
    /// bytes the pinned decoder reserves up front from client-supplied array counts
    prealloc: u128,
    max_depth: usize,
    headers: usize,
}

/// Iterative structural scan of an input along the decoder's parse path (no recursion, no
/// value building): where the parse ends, how deep arrays nest, how much the array counts
/// claim. Used only to classify failing inputs by root cause.
fn c21_scan(input: &[u8]) -> Scan {
    let elem = std::mem::size_of::<RespValue>() as u128;
    let mut sc = Scan { end: ScanEnd::NeedMore, prealloc: 0, max_depth: 0, headers: 0 };
    let mut stack: Vec<u64> = Vec::new();
    let mut pos = 0usize;
    loop {
        if pos >= input.len() {
            sc.end = ScanEnd::NeedMore;
            return sc;
        }
        let first = input[pos];
        let line = match m_read_line(input, &mut pos) {
            Some(l) => l,
            None => {
                sc.end = ScanEnd::NeedMore;
                return sc;
            }
        };
        let text = line.get(1..).and_then(|l| std::str::from_utf8(l).ok());
        let done: bool;
        match first {
            b'+' | b'-' => {
                if text.is_none() {
                    sc.end = ScanEnd::ProtoErr;
                    return sc;
                }
                done = true;
            }
            b':' => {
                if text.and_then(|s| s.parse::<i64>().ok()).is_none() {
                    sc.end = ScanEnd::ProtoErr;
                    return sc;
                }
                done = true;
            }
            b'$' => {
                let len = match text.and_then(|s| s.parse::<i64>().ok()) {
                    Some(l) => l,
                    None => {
                        sc.end = ScanEnd::ProtoErr;
                        return sc;
                    }
                };
                sc.headers += 1;
                if len == -1 {
                    done = true;
                } else if len < -1 {
                    sc.end = if len == -2 { ScanEnd::NegBulkPanic } else { ScanEnd::NeedMore };
                    return sc;
                } else {
                    let len = len as usize;
                    if input.len() - pos < len.saturating_add(2) {
                        sc.end = ScanEnd::NeedMore;
                        return sc;
                    }
                    pos += len;
                    if &input[pos..pos + 2] != b"\r\n" {
                        sc.end = ScanEnd::ProtoErr;
                        return sc;
                    }
                    pos += 2;
                    done = true;
                }
            }
            b'*' => {
                let n = match text.and_then(|s| s.parse::<usize>().ok()) {
                    Some(l) => l,
                    None => {
                        sc.end = ScanEnd::ProtoErr;
                        return sc;
                    }
                };
                sc.headers += 1;
                let bytes = n as u128 * elem;
                sc.prealloc = sc.prealloc.saturating_add(bytes);
                if bytes > isize::MAX as u128 {
                    sc.end = ScanEnd::CapOverflow;
                    return sc;
                }
                if bytes > C21_HARD_CAP as u128 {
                    sc.end = ScanEnd::HardCap;
                    return sc;
                }
                if n == 0 {
                    done = true;
                } else {
                    stack.push(n as u64);
                    sc.max_depth = sc.max_depth.max(stack.len());
                    done = false;
                }
            }
            b'_' => {
                if line.len() != 1 {
                    sc.end = ScanEnd::ProtoErr;
                    return sc;
                }
                done = true;
            }
            _ => {
                let ok = std::str::from_utf8(line).ok().and_then(|s| m_inline_tokens(s).ok()).map(|t| !t.is_empty()).unwrap_or(false);
                if !ok {
                    sc.end = ScanEnd::ProtoErr;
                    return sc;
                }
                done = true;
            }
        }
        if done {
            loop {
                match stack.last_mut() {
                    None => {
                        sc.end = ScanEnd::Value;
                        return sc;
                    }
                    Some(rem) => {
                        *rem -= 1;
                        if *rem == 0 {
                            stack.pop();
                        } else {
                            break;
                        }
                    }
                }
            }
        }
    }
}

struct C21Kf {
    neg_bulk: bool,
    prealloc: bool,
    recursion: bool,
}

#[derive(Debug)]
enum C21Judgement {
    Fine(u8),
    Kf(&'static str),
    Timeout,
    Bad(String),
}

/// judge one worker outcome (payload = verdict byte, largest u64, peak u64, message)
fn c21_judge(input_len: usize, scan: &Scan, oc: &Outcome, kf: &C21Kf) -> C21Judgement {
    let big_prealloc = scan.prealloc > (32 * 1024 + 8 * input_len) as u128;
    match oc {
        Outcome::Done(p) => {
            let v = p.first().copied().unwrap_or(b'?');
            let (largest, peak) = if p.len() >= 17 { (u64::from_le_bytes(p[1..9].try_into().unwrap()), u64::from_le_bytes(p[9..17].try_into().unwrap())) } else { (0, 0) };
            let msg = if p.len() > 17 { String::from_utf8_lossy(&p[17..]).into_owned() } else { String::new() };
            match v {
                b'V' | b'N' | b'E' => C21Judgement::Fine(v),
                b'P' if kf.neg_bulk && scan.end == ScanEnd::NegBulkPanic => C21Judgement::Kf("KF-C21-1"),
                b'P' => C21Judgement::Bad(format!("decode panicked: {msg}")),
                b'C' | b'A' if kf.prealloc && big_prealloc => C21Judgement::Kf("KF-C21-2"),
                b'C' => C21Judgement::Bad(format!("decode panicked: {msg}")),
                b'A' => C21Judgement::Bad(format!(
                    "decode of {input_len} bytes allocated too much: largest single request {largest} B, peak live {peak} B, budget {} B (64 KiB + 64 x bytes received)",
                    c21_budget(input_len)
                )),
                b'R' => C21Judgement::Bad(format!("returned value is not stable under encode -> decode: {msg}")),
                o => C21Judgement::Bad(format!("worker returned unknown verdict {o}")),
            }
        }
        Outcome::Exit(77) if kf.prealloc && big_prealloc => C21Judgement::Kf("KF-C21-2"),
        Outcome::Exit(77) => C21Judgement::Bad(format!("decode of {input_len} bytes requested more than {} B in one allocation, or the worker's live bytes (inherited + allocated) passed 4x that: allocation cap hit (exit 77)", C21_HARD_CAP)),
        Outcome::Signal(s) if (*s == 11 || *s == 6) && kf.recursion && scan.max_depth >= 1000 => C21Judgement::Kf("KF-C21-3"),
        Outcome::Timeout => C21Judgement::Timeout,
        other => C21Judgement::Bad(format!("decode of {input_len} bytes killed the process: {} (array nesting reached {})", other.describe(), scan.max_depth)),
    }
}

fn c21_worker(_i: usize, c: &MCase) -> Vec<u8> {
    c21_child_init();
    let input = c.input();
    let (v, largest, peak, msg) = c21_eval(&input);
    let mut out = vec![v];
    out.extend_from_slice(&(largest as u64).to_le_bytes());
    out.extend_from_slice(&(peak as u64).to_le_bytes());
    out.extend_from_slice(truncate(&msg, 600).as_bytes());
    out
}

/// run cases one per worker record and judge them
fn c21_run_cases(cases: &[MCase], kf: &C21Kf) -> Vec<(Scan, C21Judgement)> {
    let t0 = std::time::Instant::now();
    let mut ocs = run_isolated(cases, 30_000, &c21_worker);
    // Exit(-2) / Exit(-3) are the runner's own markers for "verdict lost" (a worker killed on
    // timeout had already finished further cases whose records were not read): such cases
    // have no verdict yet, so they are run again on their own; a verdict lost twice counts
    // as a timeout, never as a failure.
    for i in 0..ocs.len() {
        if matches!(ocs[i], Outcome::Exit(-2) | Outcome::Exit(-3)) {
            let again = run_isolated(std::slice::from_ref(&cases[i]), 30_000, &c21_worker).remove(0);
            ocs[i] = if matches!(again, Outcome::Exit(-2) | Outcome::Exit(-3)) { Outcome::Timeout } else { again };
        }
    }
    let t1 = t0.elapsed();
    let r = cases
        .iter()
        .zip(ocs.iter())
        .map(|(c, oc)| {
            let input = c.input();
            let scan = c21_scan(&input);
            let j = c21_judge(input.len(), &scan, oc, kf);
            (scan, j)
        })
        .collect();
    if std::env::var("VC_DEBUG").is_ok() {
        eprintln!("run_cases: {} cases, isolated {:?}, judge {:?}", cases.len(), t1, t0.elapsed() - t1);
    }
    r
}

const GOLDEN: &[&[u8]] = &[
    b"$5\r\nhello\r\n",
    b"*2\r\n$3\r\nfoo\r\n$3\r\nbar\r\n",
    b"*3\r\n$11\r\nGRAPH.QUERY\r\n$7\r\ndefault\r\n$18\r\nMATCH (n) RETURN n\r\n",
    b":42\r\n",
    b"+OK\r\n",
    b"-ERR x\r\n",
    b"_\r\n",
    b"$-1\r\n",
    b"*0\r\n",
    b"*2\r\n*1\r\n:1\r\n*1\r\n$1\r\na\r\n",
    b"PING\r\n",
    b"ECHO \"a b\"\r\n",
    b"$0\r\n\r\n",
];
const NUM_TEXTS: &[&str] = &[
    "-2", "-3", "-9223372036854775808", "-0", "+5", "+0", " 5", "5 ", "05", "0x10", "1e3", "", "a", "-", "9999999999", "2147483648", "4294967296",
    "9223372036854775807", "9223372036854775806", "18446744073709551615", "18446744073709551616", "99999999999999999999", "65536", "1000000", "100000000",
    "576460752303423488", "288230376151711744", "33554433", "3", "1", "0", "-1",
];
const NEST_DEPTHS: &[usize] = &[10, 100, 1000, 3000, 10_000, 30_000, 100_000, 200_000];

/// positions (start, end) of the numeric fields of `$`/`*` header lines in a frame
fn header_fields(f: &[u8]) -> Vec<(usize, usize)> {
    let mut out = Vec::new();
    let mut i = 0;
    let mut at_line_start = true;
    while i < f.len() {
        if at_line_start && (f[i] == b'$' || f[i] == b'*') {
            let s = i + 1;
            let mut e = s;
            while e < f.len() && f[e] != b'\r' {
                e += 1;
            }
            out.push((s, e));
        }
        at_line_start = i >= 1 && f[i - 1] == b'\r' && f[i] == b'\n';
        i += 1;
    }
    out
}

fn c21_mutant(tape: &[u16]) -> MCase {
    let mut t = Tape::new(tape);
    // weights: classes that end the worker (huge counts, deep nesting) are kept to a few
    // percent of the campaign because every such case costs a fork
    let kind = match t.pick(64) {
        0..=11 => 0,
        12..=17 => 2,
        18..=23 => 3,
        24 => 4,
        25..=30 => 5,
        31..=32 => 6,
        33..=40 => 7,
        41..=44 => 13,
        45..=47 => 8,
        48..=50 => 9,
        51..=53 => 10,
        54..=58 => 11,
        _ => 12,
    };
    match kind {
        0 | 1 => {
            // replace one length/count field by a boundary numeral
            let f = GOLDEN[t.pick(GOLDEN.len())];
            let fields = header_fields(f);
            if fields.is_empty() {
                let mut b = f.to_vec();
                b.insert(0, if t.pick(2) == 0 { b'$' } else { b'*' });
                return MCase::plain(b, "header_prepended");
            }
            let (s, e) = fields[t.pick(fields.len())];
            let num = NUM_TEXTS[t.pick(NUM_TEXTS.len())];
            let mut b = f[..s].to_vec();
            b.extend_from_slice(num.as_bytes());
            b.extend_from_slice(&f[e..]);
            MCase::plain(b, "length_field_replaced")
        }
        2 => {
            let f = GOLDEN[t.pick(GOLDEN.len())];
            let cut = t.pick(f.len() + 1);
            MCase::plain(f[..cut].to_vec(), "truncated")
        }
        3 => {
            // damage one CRLF
            let f = GOLDEN[t.pick(GOLDEN.len())];
            let crlfs: Vec<usize> = (0..f.len() - 1).filter(|&i| &f[i..i + 2] == b"\r\n").collect();
            let at = crlfs[t.pick(crlfs.len())];
            let rep: &[u8] = [&b"\n"[..], &b"\r"[..], &b""[..], &b"\r\r\n"[..]][t.pick(4)];
            let mut b = f[..at].to_vec();
            b.extend_from_slice(rep);
            b.extend_from_slice(&f[at + 2..]);
            MCase::plain(b, "terminator_damaged")
        }
        4 => {
            let d = NEST_DEPTHS[t.pick(NEST_DEPTHS.len())];
            let f = GOLDEN[t.pick(GOLDEN.len())];
            MCase { prefix: b"*1\r\n".to_vec(), repeat: d, body: f.to_vec(), class: "nested_valid" }
        }
        5 => {
            // counts exceeding the data, nested
            let d = [1usize, 2, 5, 10, 30, 100][t.pick(6)];
            let cnt = ["2", "3", "10", "100", "1000"][t.pick(5)];
            let f = GOLDEN[t.pick(GOLDEN.len())];
            MCase { prefix: format!("*{cnt}\r\n").into_bytes(), repeat: d, body: f.to_vec(), class: "count_exceeds_data_nested" }
        }
        6 => {
            // huge counts, optionally nested, optionally followed by padding
            let k = [1usize, 1, 2, 8, 32][t.pick(5)];
            let cnt = ["9999999999", "2147483648", "4294967296", "100000000", "576460752303423488", "18446744073709551615", "1000000", "65536"][t.pick(8)];
            let pad = [0usize, 3, 100, 10_000][t.pick(4)];
            MCase { prefix: format!("*{cnt}\r\n").into_bytes(), repeat: k, body: vec![b'x'; pad], class: "huge_count" }
        }
        7 => {
            // random byte edits of a golden frame
            let f = GOLDEN[t.pick(GOLDEN.len())];
            let mut b = f.to_vec();
            let edits = 1 + t.pick(4);
            let alpha: &[u8] = b"+-:$*_0123456789\r\n a\"\\\xff";
            for _ in 0..edits {
                let c = alpha[t.pick(alpha.len())];
                match t.pick(3) {
                    0 if !b.is_empty() => {
                        let at = t.pick(b.len());
                        b[at] = c;
                    }
                    1 => {
                        let at = t.pick(b.len() + 1);
                        b.insert(at, c);
                    }
                    _ if !b.is_empty() => {
                        let at = t.pick(b.len());
                        b.remove(at);
                    }
                    _ => b.push(c),
                }
            }
            MCase::plain(b, "byte_edits")
        }
        8 => {
            let n = [1usize, 10, 1000, 50_000][t.pick(4)];
            let tok = ["a ", "\"q q\" ", "ab\t"][t.pick(3)];
            let mut b = tok.repeat(n).into_bytes();
            if t.pick(4) > 0 {
                b.extend_from_slice(b"\r\n");
            }
            MCase::plain(b, "long_inline")
        }
        9 => {
            let n = [0usize, 1000, 100_000, 1_000_000][t.pick(4)];
            let mut b = format!("${n}\r\n").into_bytes();
            b.extend(std::iter::repeat(b'x').take(n));
            if t.pick(4) > 0 {
                b.extend_from_slice(b"\r\n");
            }
            MCase::plain(b, "big_bulk")
        }
        10 => {
            let n = [100usize, 10_000, 100_000][t.pick(3)];
            let el: &[u8] = [&b"_\r\n"[..], &b":1\r\n"[..], &b"$1\r\na\r\n"[..], &b"*0\r\n"[..]][t.pick(4)];
            let short = t.pick(3) == 0;
            MCase { prefix: el.to_vec(), repeat: if short { n - 1 } else { n }, body: Vec::new(), class: "big_honest_array" }.with_header(n)
        }
        11 => {
            let len = ["9999999999", "9223372036854775807", "100", "-2", "-3", "18446744073709551614"][t.pick(6)];
            MCase::plain(format!("${len}\r\nabc").into_bytes(), "bulk_length_exceeds_data")
        }
        13 => {
            // random inline command: length class, straddled offset, character width, quotes
            let offs: Vec<usize> = (60..=70).chain(124..=132).collect();
            let b = offs[t.pick(offs.len())];
            let wi = t.pick(3);
            let k = t.pick(wi + 2);
            let mode = t.pick(9);
            let len = [1usize, 63, 64, 65, 66, 127, 128, 129, 130, 1024, 65536][t.pick(11)] + t.pick(3);
            let mut l = inline_line(len, b, wi, k, mode);
            if t.pick(8) > 0 {
                l.extend_from_slice(b"\r\n");
            }
            if t.pick(6) == 0 {
                l.extend_from_slice(b"PING\r\n");
            }
            MCase::plain(l, "inline_random")
        }
        _ => {
            let inner = ["$-2\r\n", "$-5\r\n", "*-1\r\n", "$a\r\n", ":\r\n", "$2\r\nabc\r\n"][t.pick(6)];
            MCase::plain(format!("*2\r\n$3\r\nfoo\r\n{inner}").into_bytes(), "bad_element_in_array")
        }
    }
}
impl MCase {
    /// turn `prefix x repeat` into the elements of one array `*n` (header goes first)
    fn with_header(self, n: usize) -> MCase {
        let mut body = format!("*{n}\r\n").into_bytes();
        for _ in 0..self.repeat {
            body.extend_from_slice(&self.prefix);
        }
        MCase::plain(body, self.class)
    }
}


/// Enumerated inline-command lines (a line that does not start with a RESP type byte):
/// every quote mode x every offset in 60..=70 and 124..=132 straddled by a 2-, 3- and 4-byte
/// character at every inner position x three line lengths; plain / all-multi-byte lines of
/// lengths around 1, 63-66, 127-130, 1 KiB and 64 KiB; invalid UTF-8 at those offsets.
fn c21_inline_cases() -> Vec<MCase> {
    let mut out = Vec::new();
    let crlf = |mut l: Vec<u8>| {
        l.extend_from_slice(b"\r\n");
        l
    };
    let offs: Vec<usize> = (60..=70).chain(124..=132).collect();
    for mode in 0..9 {
        for &b in &offs {
            for wi in 0..3 {
                for k in 1..=wi + 1 {
                    for len in [b + 6, 136, 1024] {
                        if len < b + 6 {
                            continue;
                        }
                        out.push(MCase::plain(crlf(inline_line(len, b, wi, k, mode)), "inline_straddle"));
                    }
                }
            }
        }
    }
    for len in [1usize, 2, 5, 63, 64, 65, 66, 127, 128, 129, 130, 1024, 65536] {
        for mode in [0usize, 1, 2, 3, 6, 7, 8] {
            // ASCII only
            out.push(MCase::plain(crlf(inline_line(len, 0, 0, 0, mode)), "inline_lengths"));
            // dense multi-byte text: 'a' then two-/three-/four-byte characters back to back
            for wi in 0..3 {
                let ch = MB_CHARS[wi];
                let mut l: Vec<u8> = if mode == 0 { b"a".to_vec() } else { b"a \"".to_vec() };
                while l.len() < len {
                    l.extend_from_slice(ch.as_bytes());
                }
                match mode {
                    1 | 6 => l.push(b'"'),
                    8 => l.extend_from_slice(b"\\\""),
                    7 => l.push(b'\\'),
                    _ => {}
                }
                out.push(MCase::plain(crlf(l), "inline_dense_multibyte"));
            }
        }
    }
    // invalid UTF-8: a lone continuation / lead byte at the offsets, with and without an open quote
    for &b in &offs {
        for bad in [&b"\xff"[..], &b"\xc3"[..], &b"\xe2\x82"[..], &b"\xf0\x9f\x98"[..], &b"\x80"[..]] {
            for mode in [0usize, 2] {
                let mut l = inline_line(b.saturating_sub(1), 0, 0, 0, if mode == 2 { 2 } else { 0 });
                l.truncate(b.saturating_sub(1).max(6));
                l.extend_from_slice(bad);
                l.extend_from_slice(b" tail tail");
                out.push(MCase::plain(crlf(l), "inline_invalid_utf8"));
            }
        }
    }
    // without the terminating CRLF the decoder has to ask for more
    out.push(MCase::plain(inline_line(200, 64, 1, 1, 2), "inline_unterminated"));
    out
}

fn c21_verdict_name(v: u8) -> &'static str {
    match v {
        b'V' => "outcome_value",
        b'N' => "outcome_need_more",
        b'E' => "outcome_protocol_error",
        _ => "outcome_other",
    }
}

/// shrink a failing C21 case: fewer repeats, then fewer bytes
/// Ok((minimal case, message)) when the failure reproduces with the case run on its own
/// (up to 3 attempts); Err(()) when it does not (caller reports INCONCLUSIVE).
fn c21_shrink(case: MCase, kf: &C21Kf) -> Result<(MCase, String), ()> {
    let bad = |c: &MCase| -> Option<String> {
        match &c21_run_cases(std::slice::from_ref(c), kf)[0].1 {
            C21Judgement::Bad(m) => Some(m.clone()),
            _ => None,
        }
    };
    let mut best = case;
    let mut msg = match (0..3).find_map(|_| bad(&best)) {
        Some(m) => m,
        None => return Err(()),
    };
    // repeats: halve while it still fails
    while best.repeat > 0 {
        let mut c = best.clone();
        c.repeat /= 2;
        match bad(&c) {
            Some(m) => {
                best = c;
                msg = m;
            }
            None => break,
        }
    }
    if best.repeat == 0 {
        best.prefix.clear();
    }
    if best.body.len() <= 1024 {
        let b = best.clone();
        let fails = |cand: &[u8]| {
            let mut c = b.clone();
            c.body = cand.to_vec();
            bad(&c).is_some()
        };
        best.body = shrink_vec(best.body.clone(), &fails);
        if let Some(m) = bad(&best) {
            msg = m;
        }
    }
    Ok((best, msg))
}

fn c21(args: &Args) {
    let mut ev = Evidence::new(
        args,
        "exploration",
        "every byte string of length <= 6 over the alphabet {+ - : $ * _ 0 1 2 9 CR LF a} (bounded-exhaustive) plus structure-aware mutants of valid frames (length/count fields replaced by negative, huge, signed, padded and non-numeric numerals; truncation; damaged terminators; nesting 10..200000 deep; counts exceeding the data; huge counts nested and padded; byte edits; long inline commands; large honest bulks and arrays) and an inline-command class (lines not starting with a type byte: lengths around 1, 63-66, 127-130, 1 KiB, 64 KiB; balanced / unbalanced double and single quotes, backslash escapes; 2-, 3- and 4-byte UTF-8 characters straddling every offset in 60..=70 and 124..=132 at every inner position (enumerated) and at random; invalid UTF-8), each decoded once in a fork()ed worker under a counting allocator: outcome must be value / need-more / protocol error with no panic, no abort, no stack overflow, largest single allocation and peak live bytes <= 64 KiB + 64 x input bytes, and a returned value must survive encode -> decode (simple strings holding a lone CR/LF may be normalised once). Non-trivial = the decoder reads at least one complete `$`/`*` header line, or the input is an inline line of >= 60 bytes holding a quote or a non-ASCII byte; distinct = distinct inputs.",
    );
    ev.assume("allocation is measured by a counting global allocator (requested sizes, not allocator overhead); a single request above 1 GiB ends the worker and is judged as an allocation violation");
    ev.assume("workers run on the main thread's 8 MiB stack; the server's tokio workers have 2 MiB, so stack-overflow depths observed here are upper bounds");
    let known = Known::load(args);

    if let Some(p) = &args.replay {
        let case = MCase::from_json(&load_replay(p));
        let strict = C21Kf { neg_bulk: false, prealloc: false, recursion: false };
        ev.case();
        let (scan, j) = c21_run_cases(std::slice::from_ref(&case), &strict).remove(0);
        match j {
            C21Judgement::Bad(m) => {
                report_violation(&mut ev, &case.json(), &m);
            }
            C21Judgement::Timeout => {
                eprintln!("INCONCLUSIVE: replay timed out");
                std::process::exit(2);
            }
            _ => println!("replay: property held"),
        }
        let _ = scan;
        ev.nontrivial(&case.input());
        ev.nontrivial(&"replay");
        ev.sample(if case.input().len() <= 200 { case.json() } else { json!({"prefix": bj(&case.prefix), "repeat": case.repeat, "body_len": case.body.len()}) });
        finish(&ev);
    }

    // witnesses, judged strictly
    let strict = C21Kf { neg_bulk: false, prealloc: false, recursion: false };
    let mut kf = C21Kf { neg_bulk: false, prealloc: false, recursion: false };
    for id in ["KF-C21-1", "KF-C21-2", "KF-C21-3"] {
        if let Some(w) = witness_case(&known, id) {
            let c = MCase::from_json(&w);
            let still = matches!(c21_run_cases(std::slice::from_ref(&c), &strict)[0].1, C21Judgement::Bad(_));
            if known.witness_result(&mut ev, id, still) {
                match id {
                    "KF-C21-1" => kf.neg_bulk = true,
                    "KF-C21-2" => kf.prealloc = true,
                    _ => kf.recursion = true,
                }
            }
        }
    }

    let t0 = std::time::Instant::now();
    let dbg = std::env::var("VC_DEBUG").is_ok();
    let mut failure: Option<(MCase, String)> = None;

    // regression corpus
    for (_p, case) in corpus_cases("C21") {
        let c = MCase::from_json(&case);
        ev.case();
        ev.class("corpus");
        match &c21_run_cases(std::slice::from_ref(&c), &kf)[0].1 {
            C21Judgement::Bad(m) => {
                failure = Some((c, m.clone()));
                break;
            }
            C21Judgement::Kf(id) => ev.kf_hit(id),
            _ => {}
        }
    }

    // ---- bounded-exhaustive part: batches of 20 000 strings per worker record
    if failure.is_none() {
        let total = c21_space();
        let bsz = 20_000u64;
        let batches: Vec<(u64, u64)> = (0..total).step_by(bsz as usize).map(|s| (s, bsz.min(total - s))).collect();
        let ocs = run_isolated(&batches, 60_000, &|_i, b: &(u64, u64)| {
            c21_child_init();
            let mut out = Vec::with_capacity(b.1 as usize);
            for k in b.0..b.0 + b.1 {
                out.push(c21_eval(&c21_nth(k)).0);
            }
            out
        });
        let mut suspects: Vec<u64> = Vec::new();
        for (b, oc) in batches.iter().zip(ocs.iter()) {
            match oc {
                Outcome::Done(v) if v.len() as u64 == b.1 => {
                    for (k, verdict) in v.iter().enumerate() {
                        let idx = b.0 + k as u64;
                        match verdict {
                            b'V' | b'N' | b'E' => ev.class(c21_verdict_name(*verdict)),
                            _ => suspects.push(idx),
                        }
                    }
                }
                Outcome::Timeout => {
                    eprintln!("INCONCLUSIVE: an exhaustive batch of {} short strings did not finish in 60 s", b.1);
                    std::process::exit(2);
                }
                _ => {
                    // the worker died somewhere in this batch: re-run it string by string
                    for k in b.0..b.0 + b.1 {
                        suspects.push(k);
                    }
                }
            }
        }
        if dbg { eprintln!("exhaustive run done {:?}", t0.elapsed()); }
        ev.cases(total);
        // non-trivial: starts with $ or * and holds a complete header line
        for idx in 0..total {
            let s = c21_nth(idx);
            if s.len() >= 3 && (s[0] == b'$' || s[0] == b'*') && s.windows(2).any(|w| w == b"\r\n") {
                ev.nontrivial(&s);
                ev.class("exhaustive_with_header_line");
                if ev.want_sample() && s.len() == 6 && idx % 977 == 0 {
                    ev.sample(json!({ "input": bj(&s) }));
                }
            }
        }
        ev.set("exhaustive_bound", json!({"alphabet": "+-:$*_0129\\r\\na", "max_len": C21_MAXLEN, "strings": total}));
        if dbg { eprintln!("nontrivial count done {:?} suspects {}", t0.elapsed(), suspects.len()); }
        // suspects individually (panic / alloc / unstable / died)
        let scases: Vec<MCase> = suspects.iter().map(|i| MCase::plain(c21_nth(*i), "exhaustive")).collect();
        for (c, (_scan, j)) in scases.iter().zip(c21_run_cases(&scases, &kf)) {
            match j {
                C21Judgement::Fine(v) => ev.class(c21_verdict_name(v)),
                C21Judgement::Kf(id) => {
                    ev.kf_hit(id);
                    ev.class("exhaustive_known_finding");
                }
                C21Judgement::Timeout => ev.timeouts += 1,
                C21Judgement::Bad(m) => {
                    failure = Some((c.clone(), m));
                    break;
                }
            }
        }
        ev.exhaustive = Some(failure.is_none());
    }

    if dbg { eprintln!("exhaustive part done {:?}", t0.elapsed()); }
    // ---- inline-command sweep (enumerated), one worker record each
    if failure.is_none() {
        let cases = c21_inline_cases();
        let res = c21_run_cases(&cases, &kf);
        for (c, (_scan, j)) in cases.iter().zip(res) {
            ev.case();
            ev.class(c.class);
            // non-trivial: a line of at least 60 bytes holding a quote or a non-ASCII byte
            if c.body.len() >= 60 && c.body.iter().any(|x| *x == b'"' || *x >= 0x80) {
                ev.nontrivial(&c.body);
            }
            match j {
                C21Judgement::Fine(v) => ev.class(c21_verdict_name(v)),
                C21Judgement::Kf(id) => ev.kf_hit(id),
                C21Judgement::Timeout => {
                    ev.timeouts += 1;
                    ev.class("timeout");
                }
                C21Judgement::Bad(m) => {
                    if failure.is_none() {
                        failure = Some((c.clone(), m));
                    }
                }
            }
        }
        ev.set("inline_sweep_cases", json!(cases.len()));
        if dbg { eprintln!("inline sweep done {:?} ({} cases)", t0.elapsed(), cases.len()); }
    }
    // ---- structure-aware mutants, one worker record each
    if failure.is_none() {
        use proptest::prelude::*;
        let n = args.tier.pick(6_000usize, 120_000usize);
        let tapes = generate(args.seed, n, &proptest::collection::vec(any::<u16>(), 14));
        // Cases are materialised one chunk at a time: a worker inherits the parent's live
        // byte count, and the counting allocator's hard cap (4 x HARD_CAP live) would be hit
        // by the inherited bytes alone if all inputs of the thorough tier (GBs) were held.
        for tape_chunk in tapes.chunks(2000) {
            let cases: Vec<MCase> = tape_chunk.iter().map(|t| c21_mutant(t)).collect();
            let chunk = &cases[..];
            let parent_live = vcheck::forkrun::LIVE.load(std::sync::atomic::Ordering::Relaxed);
            if parent_live > C21_HARD_CAP {
                eprintln!("INCONCLUSIVE: the harness itself holds {parent_live} live bytes; workers would start above the allocation cap");
                ev.write();
                std::process::exit(2);
            }
            let res = c21_run_cases(chunk, &kf);
            if dbg { eprintln!("mutant chunk done {:?}", t0.elapsed()); }
            for (c, (scan, j)) in chunk.iter().zip(res) {
                ev.case();
                ev.class(c.class);
                if scan.headers > 0 || (c.class == "inline_random" && c.body.len() >= 60) {
                    ev.nontrivial(&c.input());
                }
                if scan.headers > 0 && ev.want_sample() && ev.evaluations % 997 == 1 {
                    ev.sample(json!({"class": c.class, "case": if c.input().len() <= 120 { c.json() } else { json!({"prefix": bj(&c.prefix), "repeat": c.repeat, "body_len": c.body.len()}) }}));
                }
                match j {
                    C21Judgement::Fine(v) => ev.class(c21_verdict_name(v)),
                    C21Judgement::Kf(id) => {
                        ev.kf_hit(id);
                        if ev.want_sample() {
                            ev.sample(json!({"class": c.class, "case": if c.input().len() <= 120 { c.json() } else { json!({"prefix": bj(&c.prefix), "repeat": c.repeat, "body_len": c.body.len()}) }, "known_finding": id}));
                        }
                    }
                    C21Judgement::Timeout => {
                        ev.timeouts += 1;
                        ev.class("timeout");
                    }
                    C21Judgement::Bad(m) => {
                        if failure.is_none() {
                            failure = Some((c.clone(), m));
                        }
                    }
                }
            }
            if failure.is_some() {
                break;
            }
        }
        if ev.timeouts * 100 > ev.evaluations.max(1) {
            eprintln!("INCONCLUSIVE: more than 1% of the cases timed out");
            ev.write();
            std::process::exit(2);
        }
    }

    if let Some((c, original)) = failure {
        ev.frozen = true;
        match c21_shrink(c.clone(), &kf) {
            Ok((min, msg)) => {
                report_violation(&mut ev, &min.json(), &msg);
            }
            Err(()) => {
                let shown = if c.input().len() <= 300 { c.json() } else { json!({"prefix": bj(&c.prefix), "repeat": c.repeat, "body_len": c.body.len(), "class": c.class}) };
                inconclusive_exit(&ev, &shown, &original);
            }
        }
    }
    finish(&ev);
}
// =======================================================================================
// C22

fn bulk(b: &[u8]) -> MV {
    MV::Bulk(Some(b.to_vec()))
}
fn cmd_of(args: &[&[u8]]) -> MV {
    MV::Array(args.iter().map(|a| bulk(a)).collect())
}

/// run a command sequence on a fresh handler + store; per command: Ok((reply, encoded)) or
/// Err(panic message)
fn c22_run(rt: &tokio::runtime::Runtime, cmds: &[MV]) -> Vec<Result<(MV, Vec<u8>), String>> {
    let handler = CommandHandler::new(None);
    let store = std::sync::Arc::new(tokio::sync::RwLock::new(samyama::graph::GraphStore::new()));
    let mut out = Vec::new();
    for c in cmds {
        let rv = mv_to_resp(c);
        let r = catch(|| {
            let reply = rt.block_on(handler.handle_command(&rv, &store));
            let mut enc = Vec::new();
            reply.encode(&mut enc).map(|_| (mv_from_resp(&reply), enc))
        });
        out.push(match r {
            Ok(Ok(x)) => Ok(x),
            Ok(Err(e)) => Err(format!("encode failed: {e}")),
            Err(m) => Err(format!("panic: {m}")),
        });
    }
    out
}

fn mv_has_crlf_line(v: &MV) -> bool {
    match v {
        MV::Simple(s) | MV::Error(s) => find_sub(s, b"\r\n").is_some(),
        MV::Array(a) => a.iter().any(mv_has_crlf_line),
        _ => false,
    }
}

struct C22Res {
    nontrivial: bool,
    kf_hits: u32,
    errors_replies: u32,
    fail: Option<String>,
}

/// oracle: every encoded reply is exactly one frame for a strict reader, consuming all bytes
fn c22_check(rt: &tokio::runtime::Runtime, cmds: &[MV], plant: &[u8], kf_on: bool) -> C22Res {
    let mut res = C22Res { nontrivial: false, kf_hits: 0, errors_replies: 0, fail: None };
    for (i, r) in c22_run(rt, cmds).into_iter().enumerate() {
        let (reply, enc) = match r {
            Ok(x) => x,
            Err(m) => {
                res.fail = Some(format!("command #{i} {} produced no reply: {m}", mv_json(&cmds[i])));
                return res;
            }
        };
        if matches!(reply, MV::Error(_)) {
            res.errors_replies += 1;
        }
        if std::env::var("VC_DEBUG").is_ok() {
            eprintln!("REPLY {:?}", String::from_utf8_lossy(&enc));
        }
        if !plant.is_empty() && plant.iter().any(|b| *b == b'\r' || *b == b'\n') && find_sub(&enc, plant).is_some() {
            res.nontrivial = true;
        }
        let mut pos = 0;
        let verdict = match strict_parse(&enc, &mut pos, 0) {
            Ok(_) if pos == enc.len() => Ok(()),
            Ok(first) => Err(format!("a client reads the frame {} and is left with {} stray bytes {:?}", mv_json(&first), enc.len() - pos, String::from_utf8_lossy(&enc[pos..]))),
            Err(e) => Err(format!("not a frame: {e}")),
        };
        if let Err(why) = verdict {
            // known finding: a simple-string / error line written raw although it holds CRLF
            let mut raw = Vec::new();
            mv_encode(&reply, &mut raw, &mut Vec::new());
            if kf_on && mv_has_crlf_line(&reply) && raw == enc {
                res.kf_hits += 1;
                continue;
            }
            res.fail = Some(format!("reply to command #{i} {} is encoded as {:?}: {why}", mv_json(&cmds[i]), String::from_utf8_lossy(&enc)));
            return res;
        }
    }
    res
}

struct Tpl {
    name: &'static str,
    cmds: Vec<Vec<&'static str>>,
    /// (command index, argument index) whose every position receives the plant
    targets: Vec<(usize, usize)>,
}

fn c22_templates() -> Vec<Tpl> {
    let q = |name: &'static str, query: &'static str| Tpl { name, cmds: vec![vec!["GRAPH.QUERY", "default", query]], targets: vec![(0, 2)] };
    let mut v = vec![
        Tpl { name: "unknown_command", cmds: vec![vec!["FOO", "arg"]], targets: vec![(0, 0), (0, 1)] },
        Tpl { name: "graph_name_query", cmds: vec![vec!["GRAPH.QUERY", "g", "RETURN 1"]], targets: vec![(0, 1)] },
        Tpl { name: "graph_name_ro_query", cmds: vec![vec!["GRAPH.RO_QUERY", "g", "RETURN 1"]], targets: vec![(0, 1), (0, 0)] },
        Tpl { name: "graph_delete", cmds: vec![vec!["GRAPH.DELETE", "g"]], targets: vec![(0, 1)] },
        Tpl { name: "graph_list", cmds: vec![vec!["GRAPH.LIST", "x"]], targets: vec![(0, 1)] },
        Tpl { name: "ping_msg", cmds: vec![vec!["PING", "msg"]], targets: vec![(0, 1), (0, 0)] },
        Tpl { name: "echo", cmds: vec![vec!["ECHO", "msg"]], targets: vec![(0, 1), (0, 0)] },
        Tpl { name: "info", cmds: vec![vec!["INFO", "all"]], targets: vec![(0, 1)] },
        Tpl { name: "too_few_args", cmds: vec![vec!["GRAPH.QUERY", "default"]], targets: vec![(0, 1)] },
        q("return_literal", "RETURN 'ab' AS x"),
        q("return_literal_dq", "RETURN \"ab\""),
        q("return_map_list", "RETURN {k: 'v'} AS m, ['v', 'w'] AS l"),
        q("match_return", "MATCH (n:L) RETURN n.p"),
        q("create_return", "CREATE (n:L {p: 'v'}) RETURN n.p"),
        q("alias", "RETURN 1 AS col"),
        q("unknown_function", "RETURN foo('ab')"),
        q("unbound_variable", "RETURN xy"),
        q("syntax_error", "MATCH (n RETURN n"),
        q("bad_regex", "RETURN 'a' =~ '(b'"),
        q("division", "RETURN 1/0"),
        q("unknown_procedure", "CALL nope.proc('ab')"),
        q("type_error", "RETURN 'ab' + 1 * 'c'"),
        q("date_parse", "RETURN date('ab')"),
        q("to_integer", "RETURN toInteger('ab')"),
        q("explain", "EXPLAIN MATCH (n:L {p: 'v'}) RETURN n"),
        q("set_via_readonly_route", "MATCH (n:L)\nSET n.p = 'q'"),
        q("drop_missing_index", "DROP INDEX ON :L(p)"),
        q("constraint", "CREATE CONSTRAINT ON (n:L) ASSERT n.p IS UNIQUE"),
        q("param", "RETURN $p"),
        q("datetime_parse", "RETURN datetime('ab')"),
        q("duration_parse", "RETURN duration('ab')"),
        q("to_float", "RETURN toFloat('ab')"),
        q("where_literal", "MATCH (n:L) WHERE n.p = 'ab' RETURN n"),
        q("unwind_literal", "UNWIND ['ab', 'c'] AS x RETURN x"),
        q("string_ops", "RETURN replace('ab', 'a', 'c'), split('a,b', ','), substring('ab', 0, 1)"),
        q("merge_return", "MERGE (n:L {p: 'ab'}) RETURN n.p"),
        q("create_index", "CREATE INDEX ON :L(p)"),
        q("show_indexes", "SHOW INDEXES"),
        q("call_labels", "CALL db.labels()"),
        q("call_algo_unknown", "CALL algo.nope({label: 'ab'})"),
        q("rel_property", "CREATE (n:L)-[r:R {w: 'ab'}]->(m:L) RETURN r.w, type(r)"),
        q("case_expr", "RETURN CASE WHEN true THEN 'ab' ELSE 'c' END AS v"),
        q("order_limit", "MATCH (n:L) RETURN n.p ORDER BY n.p LIMIT 1"),
        q("list_index_error", "RETURN ['ab'][5], 'ab'[0]"),
        q("vector_index", "CREATE VECTOR INDEX FOR (n:L) ON (n.e) OPTIONS {dimensions: 2, similarity: 'ab'}"),
        Tpl {
            name: "stored_then_returned",
            cmds: vec![vec!["GRAPH.QUERY", "default", "CREATE (n:L {p: 'v'})"], vec!["GRAPH.QUERY", "default", "MATCH (n:L) RETURN n.p, n, labels(n), keys(n)"]],
            targets: vec![(0, 2)],
        },
        Tpl {
            name: "stored_then_error",
            cmds: vec![vec!["GRAPH.QUERY", "default", "CREATE (n:L {p: 'v'})"], vec!["GRAPH.QUERY", "default", "MATCH (n:L) RETURN toInteger(n.p) + date(n.p)"]],
            targets: vec![(0, 2)],
        },
        Tpl {
            name: "unique_violation",
            cmds: vec![
                vec!["GRAPH.QUERY", "default", "CREATE CONSTRAINT ON (n:L) ASSERT n.p IS UNIQUE"],
                vec!["GRAPH.QUERY", "default", "CREATE (n:L {p: 'v'})"],
                vec!["GRAPH.QUERY", "default", "CREATE (n:L {p: 'v'})"],
            ],
            targets: vec![(1, 2), (2, 2)],
        },
        Tpl {
            name: "set_then_return",
            cmds: vec![vec!["GRAPH.QUERY", "default", "CREATE (n:L {p: 1})"], vec!["GRAPH.QUERY", "default", "MATCH (n:L) SET n.q = 'v' RETURN n.q"]],
            targets: vec![(1, 2)],
        },
    ];
    v.push(Tpl { name: "delete_then_query", cmds: vec![vec!["GRAPH.DELETE", "default"], vec!["GRAPH.QUERY", "default", "MATCH (n) RETURN count(n) AS c"]], targets: vec![(1, 2)] });
    v
}

const PLANTS_QUICK: &[&str] = &["\r\n", "\r", "\n", "\r\n+OK", "\r\n:1", "\\r\\n", "\r\r\n", "\n\r", "'\r\n", "\r\n$-1"];
const PLANTS_MORE: &[&str] = &["\r\n\r\n", "\r\n*2\r\n$1\r\na", "\r\n-ERR x", "\u{2028}", "\u{0}\r\n", "\"\r\n", "\r\n_", "\\\r\n"];

fn c22_instantiate(t: &Tpl, target: (usize, usize), pos: usize, plant: &[u8]) -> Vec<MV> {
    t.cmds
        .iter()
        .enumerate()
        .map(|(ci, c)| {
            MV::Array(
                c.iter()
                    .enumerate()
                    .map(|(ai, a)| {
                        if (ci, ai) == target {
                            let b = a.as_bytes();
                            let mut x = b[..pos].to_vec();
                            x.extend_from_slice(plant);
                            x.extend_from_slice(&b[pos..]);
                            MV::Bulk(Some(x))
                        } else {
                            bulk(a.as_bytes())
                        }
                    })
                    .collect(),
            )
        })
        .collect()
}

/// command shapes that are not arrays of UTF-8 bulk strings
fn c22_odd_shapes() -> Vec<(Vec<MV>, Vec<u8>)> {
    let p = b"\r\n+OK".to_vec();
    let withp = |pre: &[u8]| {
        let mut x = pre.to_vec();
        x.extend_from_slice(&p);
        x
    };
    vec![
        (vec![MV::Simple(withp(b"PING"))], p.clone()),
        (vec![MV::Error(withp(b"ERR"))], p.clone()),
        (vec![MV::Int(1)], vec![]),
        (vec![MV::Null], vec![]),
        (vec![MV::Bulk(Some(withp(b"PING")))], p.clone()),
        (vec![MV::Array(vec![])], vec![]),
        (vec![MV::Array(vec![MV::Bulk(None)])], vec![]),
        (vec![MV::Array(vec![MV::Int(5), bulk(&withp(b"x"))])], p.clone()),
        (vec![MV::Array(vec![MV::Simple(withp(b"PING"))])], p.clone()),
        (vec![MV::Array(vec![bulk(b"ECHO"), MV::Simple(withp(b"m"))])], p.clone()),
        (vec![MV::Array(vec![bulk(b"ECHO"), MV::Bulk(None)])], vec![]),
        (vec![MV::Array(vec![bulk(b"PING"), MV::Bulk(None)])], vec![]),
        (vec![MV::Array(vec![bulk(b"PING"), bulk(b"\xff\r\n+OK")])], p.clone()),
        (vec![MV::Array(vec![bulk(b"\xffFOO\r\n+OK")])], p.clone()),
        (vec![MV::Array(vec![bulk(b"GRAPH.QUERY"), bulk(b"\xff\r\n+OK"), bulk(b"RETURN 1")])], p.clone()),
        (vec![MV::Array(vec![bulk(b"GRAPH.QUERY"), bulk(b"default"), bulk(b"RETURN '\xff\r\n+OK'")])], p.clone()),
        (vec![MV::Array(vec![bulk(b"GRAPH.QUERY"), MV::Bulk(None), bulk(b"RETURN 1")])], vec![]),
        (vec![MV::Array(vec![bulk(b"GRAPH.QUERY"), bulk(b"default"), MV::Bulk(None)])], vec![]),
        (vec![MV::Array(vec![bulk(b"GRAPH.QUERY"), bulk(b"default"), MV::Int(3)])], vec![]),
        (vec![MV::Array(vec![bulk(b"GRAPH.DELETE"), MV::Bulk(None)])], vec![]),
        (vec![MV::Array(vec![bulk(b"graph.query"), bulk(b"default"), bulk(b"RETURN 'a\r\nb' AS `x`")])], b"\r\n".to_vec()),
        (vec![cmd_of(&[b"INFO"])], vec![]),
        (vec![cmd_of(&[b"GRAPH.LIST"])], vec![]),
    ]
}

fn c22_case_json(cmds: &[MV], plant: &[u8]) -> J {
    json!({"cmds": cmds.iter().map(mv_json).collect::<Vec<_>>(), "plant": bj(plant)})
}
fn c22_case_from(j: &J) -> (Vec<MV>, Vec<u8>) {
    let cmds = j["cmds"].as_array().cloned().unwrap_or_default().iter().map(mv_from_json).collect();
    let plant = j.get("plant").map(jb).unwrap_or_default();
    (cmds, plant)
}

/// shrink: drop commands, then bytes of each bulk argument
/// None when the case does not fail again on its own (3 attempts)
fn c22_shrink(rt: &tokio::runtime::Runtime, cmds: Vec<MV>, plant: &[u8], kf_on: bool) -> Option<(Vec<MV>, String)> {
    let fails = |c: &[MV]| matches!(catch(|| c22_check(rt, c, plant, kf_on).fail.is_some()), Ok(true) | Err(_));
    if !(0..3).any(|_| fails(&cmds)) {
        return None;
    }
    let mut best = shrink_vec(cmds, &fails);
    for ci in 0..best.len() {
        let n_args = match &best[ci] {
            MV::Array(a) => a.len(),
            _ => 0,
        };
        for ai in 0..n_args {
            let bytes = match &best[ci] {
                MV::Array(a) => match &a[ai] {
                    MV::Bulk(Some(b)) => b.clone(),
                    _ => continue,
                },
                _ => continue,
            };
            let snapshot = best.clone();
            let f = |cand: &[u8]| {
                let mut c = snapshot.clone();
                if let MV::Array(a) = &mut c[ci] {
                    a[ai] = MV::Bulk(Some(cand.to_vec()));
                }
                fails(&c)
            };
            let min = shrink_vec(bytes, &f);
            if let MV::Array(a) = &mut best[ci] {
                a[ai] = MV::Bulk(Some(min));
            }
        }
    }
    let msg = match catch(|| c22_check(rt, &best, plant, kf_on).fail) {
        Ok(Some(m)) => m,
        Ok(None) => return None,
        Err(p) => format!("panic while handling the command: {p}"),
    };
    Some((best, msg))
}

// --- C22 live part: large replies on a real socket ---------------------------------------
//
// handler + encode cannot see how the reply is put on the wire. This part starts a real
// RespServer on a loopback port, writes a pipeline of commands whose replies range from a
// few bytes to 32 MiB without waiting for answers, and checks the bytes that come back.
//
// Verdict rule (no timing assertion except one generous idle bound):
//   * every byte received is compared, as it arrives, with the only RESP encoding the
//     expected replies have (ECHO -> `$n\r\n<payload>\r\n`, PING -> `+PONG\r\n`, the query
//     -> header row + one bulk cell). The first differing byte is a VIOLATION: the stream
//     then holds a frame that can no longer be completed correctly, whatever comes later.
//     Every pipeline ends with a small PING, so a reply that was cut short on the wire is
//     always followed by other reply bytes and shows up as such a differing byte;
//   * end of stream / connection reset before all replies arrived, or bytes after the last
//     expected reply: VIOLATION;
//   * the complete stream is finally read by the strict RESP reader: exactly one frame per
//     command, in order, payloads intact;
//   * if the bytes so far are a correct prefix, the server keeps the connection open and
//     nothing arrives for LIVE_IDLE_SECS: INCONCLUSIVE (exit 2), never a violation.

const LIVE_IDLE_SECS: u64 = 180;
const LIVE_FILL: &[u8] = b"abcdefghijklmnopqrstuvwxyz0123456789 \r\n";
const LIVE_FILL_QUERY: &[u8] = b"abcdefghijklmnopqrstuvwxyz0123456789";

#[derive(Clone, Debug, PartialEq, Eq, Hash)]
enum LiveCmd {
    /// ECHO of a generated payload (size, salt)
    Echo(usize, u32),
    /// GRAPH.QUERY default "RETURN '<literal>' AS s" (size, salt)
    Query(usize, u32),
    Ping,
    /// a line the decoder refuses (raw bytes incl. CRLF); answered by one error frame
    Refused(Vec<u8>),
}

/// payload of `n` bytes over `alpha`: a 4099-byte non-repeating-looking block, entered at
/// an offset that depends on the salt and repeated (block copies, so 32 MiB cost a memcpy)
fn live_fill_into(out: &mut Vec<u8>, n: usize, salt: u32, alpha: &[u8]) {
    const BLOCK: usize = 4099;
    let m = alpha.len();
    let block: Vec<u8> = (0..BLOCK).map(|i| alpha[(i * 7 + (i >> 5) + i * i) % m]).collect();
    let end = out.len() + n;
    let mut at = (salt as usize * 131) % BLOCK;
    while out.len() < end {
        let take = (BLOCK - at).min(end - out.len());
        out.extend_from_slice(&block[at..at + take]);
        at = 0;
    }
}
impl LiveCmd {
    /// append the request bytes / the expected reply bytes without intermediate copies
    fn request_into(&self, out: &mut Vec<u8>) {
        match self {
            LiveCmd::Echo(n, salt) => {
                out.extend_from_slice(format!("*2\r\n$4\r\nECHO\r\n${n}\r\n").as_bytes());
                live_fill_into(out, *n, *salt, LIVE_FILL);
                out.extend_from_slice(b"\r\n");
            }
            LiveCmd::Query(n, salt) => {
                out.extend_from_slice(format!("*3\r\n$11\r\nGRAPH.QUERY\r\n$7\r\ndefault\r\n${}\r\nRETURN '", n + 14).as_bytes());
                live_fill_into(out, *n, *salt, LIVE_FILL_QUERY);
                out.extend_from_slice(b"' AS s\r\n");
            }
            LiveCmd::Ping => out.extend_from_slice(b"*1\r\n$4\r\nPING\r\n"),
            LiveCmd::Refused(raw) => out.extend_from_slice(raw),
        }
    }
    fn reply_into(&self, out: &mut Vec<u8>) {
        match self {
            LiveCmd::Echo(n, salt) => {
                out.extend_from_slice(format!("${n}\r\n").as_bytes());
                live_fill_into(out, *n, *salt, LIVE_FILL);
                out.extend_from_slice(b"\r\n");
            }
            LiveCmd::Query(n, salt) => {
                out.extend_from_slice(format!("*2\r\n*1\r\n$1\r\ns\r\n*1\r\n${n}\r\n").as_bytes());
                live_fill_into(out, *n, *salt, LIVE_FILL_QUERY);
                out.extend_from_slice(b"\r\n");
            }
            LiveCmd::Ping => out.extend_from_slice(b"+PONG\r\n"),
            LiveCmd::Refused(_) => {}
        }
    }
    fn wire_sizes(&self) -> (usize, usize) {
        match self {
            LiveCmd::Echo(n, _) => (n + 40, n + 24),
            LiveCmd::Query(n, _) => (n + 80, n + 48),
            LiveCmd::Ping => (14, 7),
            LiveCmd::Refused(raw) => (raw.len(), 0),
        }
    }
    fn reply_size(&self) -> usize {
        match self {
            LiveCmd::Echo(n, _) | LiveCmd::Query(n, _) => *n,
            LiveCmd::Ping => 4,
            LiveCmd::Refused(_) => 0,
        }
    }
    fn json(&self) -> J {
        match self {
            LiveCmd::Refused(raw) => json!({"refused": bj(raw)}),
            LiveCmd::Echo(n, s) => json!({"echo": n, "salt": s}),
            LiveCmd::Query(n, s) => json!({"query": n, "salt": s}),
            LiveCmd::Ping => json!("ping"),
        }
    }
    fn from_json(j: &J) -> LiveCmd {
        if let Some(n) = j.get("echo") {
            LiveCmd::Echo(n.as_u64().unwrap_or(0) as usize, j["salt"].as_u64().unwrap_or(0) as u32)
        } else if let Some(n) = j.get("query") {
            LiveCmd::Query(n.as_u64().unwrap_or(0) as usize, j["salt"].as_u64().unwrap_or(0) as u32)
        } else if let Some(r) = j.get("refused") {
            LiveCmd::Refused(jb(r))
        } else {
            LiveCmd::Ping
        }
    }
}

fn live_size_class(n: usize) -> &'static str {
    match n {
        0..=4095 => "small",
        4096..=524_287 => "64k",
        524_288..=4_194_303 => "1m",
        4_194_304..=16_777_215 => "8m",
        _ => "32m",
    }
}

enum LiveVerdict {
    Held,
    Violation(String),
    Inconclusive(String),
}

fn show(b: &[u8]) -> String {
    format!("{:?}", String::from_utf8_lossy(&b[..b.len().min(32)]))
}

/// one connection: write the whole pipeline from a second thread, compare the reply stream
/// strict RESP reader without payload copies: advances `pos` over exactly one frame
fn strict_skip(b: &[u8], pos: &mut usize, depth: usize) -> Result<(), String> {
    if depth > 64 {
        return Err("nesting deeper than 64".into());
    }
    if *pos >= b.len() {
        return Err("truncated: no type byte".into());
    }
    let t = b[*pos];
    let rest = &b[*pos + 1..];
    // header lines are short; a bulk payload is never scanned for CRLF
    let le = match rest[..rest.len().min(1 << 16)].windows(2).position(|w| w == b"\r\n") {
        Some(p) => p,
        None if t == b'+' || t == b'-' => match rest.windows(2).position(|w| w == b"\r\n") {
            Some(p) => p,
            None => return Err("truncated: line without CRLF".into()),
        },
        None => return Err("header line without CRLF".into()),
    };
    let line = &rest[..le];
    *pos += 1 + le + 2;
    let uint = |l: &[u8]| -> Option<usize> {
        if l.is_empty() || !l.iter().all(|c| c.is_ascii_digit()) {
            return None;
        }
        std::str::from_utf8(l).ok()?.parse::<usize>().ok()
    };
    match t {
        b'+' | b'-' => Ok(()),
        b':' => {
            let d = line.strip_prefix(b"-").unwrap_or(line);
            if uint(d).is_some() || std::str::from_utf8(line).ok().and_then(|x| x.parse::<i64>().ok()).is_some() && !d.is_empty() && d.iter().all(|c| c.is_ascii_digit()) {
                Ok(())
            } else {
                Err("malformed integer".into())
            }
        }
        b'$' => {
            if line == b"-1" {
                return Ok(());
            }
            let n = uint(line).ok_or_else(|| "malformed bulk length".to_string())?;
            if b.len() < *pos + n + 2 {
                return Err("truncated bulk".into());
            }
            if &b[*pos + n..*pos + n + 2] != b"\r\n" {
                return Err("bulk payload not followed by CRLF".into());
            }
            *pos += n + 2;
            Ok(())
        }
        b'*' => {
            let n = uint(line).ok_or_else(|| "malformed array count".to_string())?;
            for _ in 0..n {
                strict_skip(b, pos, depth + 1)?;
            }
            Ok(())
        }
        b'_' => {
            if line.is_empty() {
                Ok(())
            } else {
                Err("null frame with trailing bytes".into())
            }
        }
        o => Err(format!("unknown type byte {:?}", o as char)),
    }
}

// --- shared live exchange engine (C20 live big frames, C22 live replies) -------------------

/// one expected reply on the wire
enum Seg {
    /// the only RESP encoding the expected reply has
    Exact(Vec<u8>),
    /// any single error frame: `-` <text without CR/LF> CRLF (the wording is not asserted)
    AnyError,
}

/// what the writer does after a write
#[derive(Clone, Copy, Debug, PartialEq)]
enum Sync {
    None,
    SleepMs(u64),
    /// wait until this many replies have been received completely (bounded; then go on)
    AwaitReplies(usize),
}

struct WriteStep {
    /// write request[previous end .. end]
    end: usize,
    sync: Sync,
}

/// incremental comparison of the reply stream with the expected segments
struct Matcher {
    segs: Vec<Seg>,
    cur: usize,
    off: usize,
    /// stream offset
    total: usize,
    /// bytes of the error line being read (AnyError)
    line: Vec<u8>,
}

impl Matcher {
    fn new(segs: Vec<Seg>) -> Matcher {
        Matcher { segs, cur: 0, off: 0, total: 0, line: Vec::new() }
    }
    fn done(&self) -> bool {
        self.cur >= self.segs.len()
    }
    fn completed(&self) -> usize {
        self.cur
    }
    /// how many bytes may be read without running past the current reply
    fn want(&self) -> usize {
        match self.segs.get(self.cur) {
            Some(Seg::Exact(b)) => b.len() - self.off,
            Some(Seg::AnyError) => 64,
            None => 1,
        }
    }
    /// Err((reply index, offset inside the reply, what is wrong))
    fn feed(&mut self, mut bytes: &[u8]) -> Result<(), (usize, usize, String)> {
        while !bytes.is_empty() {
            match self.segs.get(self.cur) {
                None => return Err((self.cur, 0, format!("{} bytes after the last expected reply: {}", bytes.len(), show(bytes)))),
                Some(Seg::Exact(exp)) => {
                    let n = (exp.len() - self.off).min(bytes.len());
                    if bytes[..n] != exp[self.off..self.off + n] {
                        let d = (0..n).find(|j| bytes[*j] != exp[self.off + *j]).unwrap();
                        return Err((
                            self.cur,
                            self.off + d,
                            format!("the wire carries {} where the frame ({} bytes) continues with {}", show(&bytes[d..]), exp.len(), show(&exp[self.off + d..])),
                        ));
                    }
                    self.off += n;
                    self.total += n;
                    bytes = &bytes[n..];
                    if self.off == exp.len() {
                        self.cur += 1;
                        self.off = 0;
                    }
                }
                Some(Seg::AnyError) => {
                    let b = bytes[0];
                    if self.line.is_empty() && b != b'-' {
                        return Err((self.cur, 0, format!("an error reply (one `-...` line) is due, the wire carries {}", show(bytes))));
                    }
                    if self.line.len() > 65536 {
                        return Err((self.cur, self.line.len(), "error line longer than 64 KiB".into()));
                    }
                    self.line.push(b);
                    self.total += 1;
                    bytes = &bytes[1..];
                    if self.line.ends_with(b"\r\n") {
                        let mut pos = 0;
                        let ok = matches!(strict_parse(&self.line, &mut pos, 0), Ok(MV::Error(_))) && pos == self.line.len();
                        if !ok {
                            return Err((self.cur, 0, format!("error reply {} is not one frame for the strict reader", show(&self.line))));
                        }
                        self.line.clear();
                        self.cur += 1;
                    }
                }
            }
        }
        Ok(())
    }
}

/// Run one connection against the loopback server: a writer thread follows `steps`, this
/// thread compares every reply byte on arrival. `paced`: read only at quiescent moments at
/// reply boundaries (see the C22 live part). `label(i)` names reply #i in messages.
fn live_exchange(request: Vec<u8>, segs: Vec<Seg>, steps: Vec<WriteStep>, paced: bool, label: &dyn Fn(usize) -> String) -> LiveVerdict {
    use std::io::{Read, Write};
    use std::sync::atomic::{AtomicBool, AtomicUsize, Ordering};
    let port = live_server_port();
    let t_start = std::time::Instant::now();
    let dbg = std::env::var("VC_DEBUG").is_ok();
    let stream = match std::net::TcpStream::connect(("127.0.0.1", port)) {
        Ok(s) => s,
        Err(e) => return LiveVerdict::Inconclusive(format!("cannot connect to the loopback server: {e}")),
    };
    stream.set_nodelay(true).ok();
    stream.set_read_timeout(Some(std::time::Duration::from_millis(500))).ok();
    let mut wstream = match stream.try_clone() {
        Ok(s) => s,
        Err(e) => return LiveVerdict::Inconclusive(format!("cannot clone the socket: {e}")),
    };
    let written = std::sync::Arc::new(AtomicUsize::new(0));
    let completed = std::sync::Arc::new(AtomicUsize::new(0));
    let reader_done = std::sync::Arc::new(AtomicBool::new(false));
    let (written_w, completed_w, reader_done_w) = (written.clone(), completed.clone(), reader_done.clone());
    let n_replies = segs.len();
    let writer = std::thread::spawn(move || -> Result<(), String> {
        let mut prev = 0usize;
        for st in &steps {
            let end = st.end.min(request.len());
            for chunk in request[prev.min(end)..end].chunks(1 << 18) {
                if let Err(e) = wstream.write_all(chunk) {
                    return Err(e.to_string());
                }
                written_w.fetch_add(chunk.len(), Ordering::SeqCst);
            }
            let _ = wstream.flush();
            prev = end;
            match st.sync {
                Sync::None => {}
                Sync::SleepMs(ms) => std::thread::sleep(std::time::Duration::from_millis(ms)),
                Sync::AwaitReplies(n) => {
                    // bounded wait: the pacing never decides the verdict
                    let t = std::time::Instant::now();
                    while completed_w.load(Ordering::SeqCst) < n && !reader_done_w.load(Ordering::SeqCst) && t.elapsed().as_secs() < 60 {
                        std::thread::sleep(std::time::Duration::from_millis(1));
                    }
                }
            }
        }
        if prev < request.len() {
            wstream.write_all(&request[prev..]).map_err(|e| e.to_string())?;
            written_w.fetch_add(request.len() - prev, Ordering::SeqCst);
        }
        let _ = wstream.flush();
        Ok(())
    });
    let fd = {
        use std::os::unix::io::AsRawFd;
        stream.as_raw_fd()
    };
    let pending = move || -> usize {
        let mut n: libc::c_int = 0;
        let r = unsafe { libc::ioctl(fd, libc::FIONREAD, &mut n) };
        if r == 0 && n > 0 {
            n as usize
        } else {
            0
        }
    };
    let wait_quiescent = |written: &AtomicUsize| {
        let mut last = (written.load(Ordering::SeqCst), pending());
        let mut stable = 0;
        let mut spins = 0;
        while stable < 6 && spins < 200 {
            std::thread::sleep(std::time::Duration::from_millis(25));
            let cur = (written.load(Ordering::SeqCst), pending());
            if cur == last {
                stable += 1;
            } else {
                stable = 0;
                last = cur;
            }
            spins += 1;
        }
    };
    let mut m = Matcher::new(segs);
    let mut rstream = stream;
    let mut tmp = vec![0u8; 1 << 18];
    let mut last_progress = std::time::Instant::now();
    let mut verdict: Option<LiveVerdict> = None;
    let mut paused_at: Option<usize> = None;
    while verdict.is_none() && !m.done() {
        if paced && m.off == 0 && m.line.is_empty() && paused_at != Some(m.cur) {
            if dbg {
                eprintln!("live: boundary before reply #{} t={:?} written={}", m.cur, t_start.elapsed(), written.load(Ordering::SeqCst));
            }
            wait_quiescent(&written);
            paused_at = Some(m.cur);
        }
        let want = m.want().min(tmp.len()).max(1);
        match rstream.read(&mut tmp[..want]) {
            Ok(0) => {
                verdict = Some(LiveVerdict::Violation(format!(
                    "the server closed the connection after {} reply bytes, inside {}; {} complete replies of {} were received",
                    m.total,
                    label(m.cur.min(n_replies.saturating_sub(1))),
                    m.completed(),
                    n_replies
                )));
            }
            Ok(k) => {
                last_progress = std::time::Instant::now();
                let before = m.total;
                if let Err((i, off, what)) = m.feed(&tmp[..k]) {
                    verdict = Some(LiveVerdict::Violation(format!(
                        "reply stream byte {} (byte {off} of {}) is wrong: {what}; the client can no longer read one well-formed frame per command",
                        before.max(m.total),
                        label(i.min(n_replies.saturating_sub(1)))
                    )));
                }
                completed.store(m.completed(), Ordering::SeqCst);
            }
            Err(e) if e.kind() == std::io::ErrorKind::WouldBlock || e.kind() == std::io::ErrorKind::TimedOut || e.kind() == std::io::ErrorKind::Interrupted => {
                if last_progress.elapsed().as_secs() >= LIVE_IDLE_SECS {
                    verdict = Some(LiveVerdict::Inconclusive(format!(
                        "no reply byte for {LIVE_IDLE_SECS} s with the connection open; {} bytes / {} of {} replies received so far, all of them correct",
                        m.total,
                        m.completed(),
                        n_replies
                    )));
                }
            }
            Err(e) => {
                verdict = Some(LiveVerdict::Violation(format!("the connection failed ({e}) after {} reply bytes, inside {}", m.total, label(m.cur.min(n_replies.saturating_sub(1))))));
            }
        }
    }
    if verdict.is_none() {
        // complete: anything more on the wire is a stray frame
        rstream.set_read_timeout(Some(std::time::Duration::from_millis(150))).ok();
        if let Ok(k2) = rstream.read(&mut tmp) {
            if k2 > 0 {
                verdict = Some(LiveVerdict::Violation(format!("{k2} bytes after the last expected reply: {}", show(&tmp[..k2]))));
            }
        }
    }
    reader_done.store(true, Ordering::SeqCst);
    let _ = rstream.shutdown(std::net::Shutdown::Both);
    let wres = writer.join().unwrap_or_else(|_| Err("writer thread panicked".into()));
    if let Some(v) = verdict {
        return v;
    }
    if let Err(e) = wres {
        return LiveVerdict::Violation(format!("writing the pipeline failed although every reply arrived: {e}"));
    }
    // every Exact reply through the strict reader (the received bytes equal it byte for byte)
    for (i, s) in m.segs.iter().enumerate() {
        if let Seg::Exact(b) = s {
            let mut pos = 0;
            match strict_skip(b, &mut pos, 0) {
                Ok(()) if pos == b.len() => {}
                Ok(()) => return LiveVerdict::Violation(format!("{}: the strict reader's frame ends at byte {pos} of {}", label(i), b.len())),
                Err(e) => return LiveVerdict::Violation(format!("{} is not a frame for the strict reader: {e}", label(i))),
            }
        }
    }
    if dbg {
        eprintln!("live: exchange held, {} reply bytes, t={:?}", m.total, t_start.elapsed());
    }
    LiveVerdict::Held
}

/// one connection of the C22 live part
fn c22_live_run(cmds: &[LiveCmd]) -> LiveVerdict {
    let (rq_cap, _) = cmds.iter().fold((0, 0), |a, c| (a.0 + c.wire_sizes().0, a.1 + c.wire_sizes().1));
    let mut request = Vec::with_capacity(rq_cap);
    let mut segs = Vec::new();
    let mut steps = Vec::new();
    for (i, c) in cmds.iter().enumerate() {
        c.request_into(&mut request);
        match c {
            LiveCmd::Refused(_) => {
                segs.push(Seg::AnyError);
                // the server stops decoding the current read after a refused input: it must
                // be the last thing of its write, and its error reply is awaited before
                // anything else is sent (then the next write starts a new read)
                steps.push(WriteStep { end: request.len(), sync: Sync::AwaitReplies(i + 1) });
            }
            _ => {
                let mut b = Vec::with_capacity(c.wire_sizes().1);
                c.reply_into(&mut b);
                segs.push(Seg::Exact(b));
            }
        }
    }
    steps.push(WriteStep { end: request.len(), sync: Sync::None });
    let label = |i: usize| format!("reply #{i} (to {})", cmds[i].json());
    live_exchange(request, segs, steps, true, &label)
}

// --- C20 live part with big frames (runs in both tiers) ------------------------------------
//
// Pipelines mixing frames of {small, ~4 KiB, 64 KiB-1/0/+1, 65 KiB, 256 KiB, 1 MiB} are
// written to a real RespServer in generated write plans whose boundaries straddle frames:
// a big frame minus its last T bytes, then [its tail + the first half of the next frame]
// (or [tail + a whole small frame + half of another]) in ONE write, then -- once the big
// frame's reply has arrived -- the rest. Replies are compared byte for byte on arrival
// (same verdict rule as the C22 live part: wrong byte / early close / surplus bytes =
// violation; correct prefix + 180 s silence = inconclusive).

#[derive(Clone, Debug)]
struct BigCase {
    cmds: Vec<LiveCmd>,
    /// (request offset where a write ends, sync kind: 0 none, 1 short sleep, 2 await replies)
    writes: Vec<(usize, u8)>,
    plan: &'static str,
}

fn big_request(cmds: &[LiveCmd]) -> (Vec<u8>, Vec<usize>) {
    let cap = cmds.iter().map(|c| c.wire_sizes().0).sum();
    let mut request = Vec::with_capacity(cap);
    let mut ends = Vec::new();
    for c in cmds {
        c.request_into(&mut request);
        ends.push(request.len());
    }
    (request, ends)
}

impl BigCase {
    fn json(&self) -> J {
        json!({
            "live_big": true,
            "pipeline": self.cmds.iter().map(|c| c.json()).collect::<Vec<_>>(),
            "writes": self.writes.iter().map(|(e, k)| { let kind = ["none", "sleep", "await"][*k as usize % 3]; json!([e, kind]) }).collect::<Vec<_>>(),
        })
    }
    fn from_json(j: &J) -> BigCase {
        let cmds = j["pipeline"].as_array().cloned().unwrap_or_default().iter().map(LiveCmd::from_json).collect();
        let writes = j["writes"]
            .as_array()
            .cloned()
            .unwrap_or_default()
            .iter()
            .map(|w| {
                let k = match w[1].as_str().unwrap_or("none") {
                    "sleep" => 1,
                    "await" => 2,
                    _ => 0,
                };
                (w[0].as_u64().unwrap_or(0) as usize, k)
            })
            .collect();
        BigCase { cmds, writes, plan: "replay" }
    }
    fn run(&self) -> LiveVerdict {
        let (request, ends) = big_request(&self.cmds);
        let mut segs = Vec::new();
        for c in &self.cmds {
            let mut b = Vec::with_capacity(c.wire_sizes().1);
            c.reply_into(&mut b);
            segs.push(Seg::Exact(b));
        }
        let mut steps = Vec::new();
        let mut prev = 0usize;
        for (end, kind) in &self.writes {
            let end = (*end).min(request.len());
            if end <= prev {
                continue;
            }
            prev = end;
            let whole = ends.iter().filter(|e| **e <= end).count();
            let sync = match kind {
                2 if whole > 0 => Sync::AwaitReplies(whole),
                0 => Sync::None,
                _ => Sync::SleepMs(3),
            };
            steps.push(WriteStep { end, sync });
        }
        steps.push(WriteStep { end: request.len(), sync: Sync::None });
        let cmds = self.cmds.clone();
        let label = move |i: usize| format!("reply #{i} (to {})", cmds[i].json());
        live_exchange(request, segs, steps, false, &label)
    }
    /// some write carries the tail of a frame of more than 64 KiB and ends strictly inside a
    /// later frame
    fn straddles_after_big(&self) -> bool {
        let (_, ends) = big_request_sizes(&self.cmds);
        let start = |i: usize| if i == 0 { 0 } else { ends[i - 1] };
        let mut prev = 0usize;
        let mut hit = false;
        for (w, _) in &self.writes {
            for i in 0..ends.len() {
                let big_tail_in_write = ends[i] - start(i) > 65536 && prev < ends[i] && ends[i] < *w;
                let ends_inside_later = (i + 1..ends.len()).any(|j| *w > start(j) && *w < ends[j]);
                if big_tail_in_write && ends_inside_later {
                    hit = true;
                }
            }
            prev = *w;
        }
        hit
    }
}

/// frame end offsets without materialising the request
fn big_request_sizes(cmds: &[LiveCmd]) -> (usize, Vec<usize>) {
    let mut ends = Vec::new();
    let mut at = 0usize;
    for c in cmds {
        at += match c {
            LiveCmd::Echo(n, _) => format!("*2\r\n$4\r\nECHO\r\n${n}\r\n").len() + n + 2,
            LiveCmd::Query(n, _) => format!("*3\r\n$11\r\nGRAPH.QUERY\r\n$7\r\ndefault\r\n${}\r\nRETURN '", n + 14).len() + n + 8,
            LiveCmd::Ping => 14,
            LiveCmd::Refused(r) => r.len(),
        };
        ends.push(at);
    }
    (at, ends)
}

fn big_frame_class(n: usize) -> &'static str {
    match n {
        0..=1023 => "small",
        1024..=16383 => "4k",
        16384..=65535 => "64k",
        65536..=131071 => "65k",
        131072..=524287 => "256k",
        _ => "1m",
    }
}

/// write plans over a command list
fn big_plan(cmds: &[LiveCmd], kind: usize, t: &mut Tape) -> (Vec<(usize, u8)>, &'static str) {
    let (total, ends) = big_request_sizes(cmds);
    let start = |i: usize| if i == 0 { 0 } else { ends[i - 1] };
    let len = |i: usize| ends[i] - start(i);
    let tails = [1usize, 2, 100, 4096];
    let mut w: Vec<(usize, u8)> = Vec::new();
    match kind {
        0 => {
            // big frame minus T | tail + half of the next frame | rest
            for i in 0..cmds.len().saturating_sub(1) {
                if len(i) > 60_000 {
                    let tl = tails[t.pick(tails.len())].min(len(i) - 1);
                    w.push((ends[i] - tl, 1));
                    w.push((ends[i] + (len(i + 1) / 2).max(1).min(len(i + 1) - 1), 2));
                }
            }
            (w, "straddle_next")
        }
        1 => {
            // big frame minus T | tail + whole next frame + half of the one after | rest
            for i in 0..cmds.len().saturating_sub(2) {
                if len(i) > 60_000 && len(i + 1) < 8192 {
                    let tl = tails[t.pick(tails.len())].min(len(i) - 1);
                    w.push((ends[i] - tl, 1));
                    w.push((ends[i + 1] + (len(i + 2) / 2).max(1).min(len(i + 2) - 1), 2));
                }
            }
            (w, "tail_small_half")
        }
        2 => {
            let n = 2 + t.pick(5);
            let mut cuts: Vec<usize> = (0..n).map(|_| 1 + t.pick(total - 1)).collect();
            // pull some cuts to frame ends +- a few bytes
            for c in cuts.iter_mut() {
                if t.pick(2) == 0 {
                    let e = ends[t.pick(ends.len())];
                    *c = (e + t.pick(9)).saturating_sub(4).clamp(1, total - 1);
                }
            }
            cuts.sort();
            cuts.dedup();
            (cuts.into_iter().map(|c| (c, 1 + (c % 2) as u8)).collect(), "random_cuts")
        }
        _ => (w, "one_write"),
    }
}

fn c20_big_cases(args: &Args) -> Vec<BigCase> {
    use proptest::prelude::*;
    const K: usize = 1024;
    let n_random = args.tier.pick(2usize, 40usize);
    let tapes = generate(args.seed ^ 0x20b1, 5 + n_random, &proptest::collection::vec(any::<u16>(), 32));
    let mut out = Vec::new();
    for (k, tape) in tapes.iter().enumerate() {
        let mut t = Tape::new(tape);
        // ECHO payload sizes: the frame is the payload plus 24-25 bytes
        let s = (k * 10) as u32;
        let (cmds, kind): (Vec<LiveCmd>, usize) = match k {
            0 => (vec![LiveCmd::Echo(65511 + t.pick(3), s), LiveCmd::Echo(20 + t.pick(40), s + 1), LiveCmd::Ping], 0),
            1 => (vec![LiveCmd::Echo(65 * K + t.pick(64), s), LiveCmd::Ping, LiveCmd::Echo(4 * K + t.pick(32) - 16, s + 1), LiveCmd::Ping], 1),
            2 => (vec![LiveCmd::Echo(256 * K + t.pick(64), s), LiveCmd::Echo(65512, s + 1), LiveCmd::Echo(30, s + 2), LiveCmd::Ping], 0),
            3 => (vec![LiveCmd::Echo(K * K + t.pick(64), s), LiveCmd::Echo(4 * K + t.pick(32), s + 1), LiveCmd::Echo(65 * K, s + 2), LiveCmd::Ping, LiveCmd::Ping], 0),
            4 => (vec![LiveCmd::Echo(70 * K, s), LiveCmd::Echo(3, s + 1), LiveCmd::Echo(300 * K, s + 2), LiveCmd::Echo(5, s + 3), LiveCmd::Echo(200, s + 4), LiveCmd::Ping], 1),
            _ => {
                let n = 2 + t.pick(5);
                let sizes = [0usize, 7, 60, 4 * K - 8, 4 * K + 8, 65511, 65512, 65513, 65 * K, 256 * K, K * K, 130 * K];
                let mut v: Vec<LiveCmd> = (0..n)
                    .map(|j| if t.pick(6) == 0 { LiveCmd::Ping } else { LiveCmd::Echo(sizes[t.pick(sizes.len())] + t.pick(3), s + j as u32) })
                    .collect();
                // at least one frame above 64 KiB that is followed by another frame
                if !v[..v.len() - 1].iter().any(|c| matches!(c, LiveCmd::Echo(n, _) if *n > 65536)) {
                    v.insert(0, LiveCmd::Echo([65 * K, 256 * K, 70 * K][t.pick(3)] + t.pick(5), s + 9));
                }
                v.push(LiveCmd::Ping);
                (v, t.pick(4))
            }
        };
        let (writes, plan) = big_plan(&cmds, kind, &mut t);
        out.push(BigCase { cmds, writes, plan });
    }
    out
}

/// the live part of C20 that runs in every tier; returns a failing case and its message
fn c20_live_big(args: &Args, ev: &mut Evidence) -> Option<(BigCase, String)> {
    for case in c20_big_cases(args) {
        ev.class("live_big_connections");
        ev.class(&format!("live_big_plan_{}", case.plan));
        for c in &case.cmds {
            ev.case();
            match c {
                LiveCmd::Echo(n, _) => ev.class(&format!("live_big_frame_{}", big_frame_class(*n))),
                _ => ev.class("live_big_frame_ping"),
            }
        }
        if case.straddles_after_big() {
            ev.class("live_big_write_straddles_after_big_frame");
            ev.nontrivial(&("live_big", case.json().to_string()));
        }
        match case.run() {
            LiveVerdict::Held => ev.class("live_big_held"),
            LiveVerdict::Inconclusive(m) => {
                eprintln!("INCONCLUSIVE: live pipeline {}: {m}", case.json());
                ev.write();
                std::process::exit(2);
            }
            LiveVerdict::Violation(m) => {
                ev.frozen = true;
                if !(0..3).any(|_| matches!(case.run(), LiveVerdict::Violation(_))) {
                    inconclusive_exit(ev, &case.json(), &m);
                }
                // shrink: fewer write boundaries, then fewer trailing commands
                let base = case.clone();
                let fails = |w: &[(usize, u8)]| {
                    let mut c = base.clone();
                    c.writes = w.to_vec();
                    matches!(c.run(), LiveVerdict::Violation(_))
                };
                let mut best = case.clone();
                best.writes = shrink_vec(case.writes.clone(), &fails);
                while best.cmds.len() > 2 {
                    let mut c = best.clone();
                    c.cmds.pop();
                    let (total, _) = big_request_sizes(&c.cmds);
                    c.writes.retain(|(w, _)| *w < total);
                    if matches!(c.run(), LiveVerdict::Violation(_)) {
                        best = c;
                    } else {
                        break;
                    }
                }
                let msg = match best.run() {
                    LiveVerdict::Violation(m2) => m2,
                    _ => m,
                };
                return Some((best, msg));
            }
        }
    }
    None
}

fn c22_live_case_json(cmds: &[LiveCmd]) -> J {
    json!({"live": true, "pipeline": cmds.iter().map(|c| c.json()).collect::<Vec<_>>()})
}

/// pipelines of this run: fixed coverage of every size class + seed-driven mixes
fn c22_live_pipelines(args: &Args) -> Vec<Vec<LiveCmd>> {
    use proptest::prelude::*;
    const K64: usize = 64 * 1024;
    const M1: usize = 1024 * 1024;
    let n_random = args.tier.pick(1usize, 12usize);
    let tapes = generate(args.seed ^ 0x22c2, 3 + n_random, &proptest::collection::vec(any::<u16>(), 24));
    let mut out = Vec::new();
    for (k, tape) in tapes.iter().enumerate() {
        let mut t = Tape::new(tape);
        let mut jitter = |base: usize| base + t.pick(4096);
        let mut cmds: Vec<LiveCmd> = match k {
            0 => vec![LiveCmd::Echo(jitter(3), 1), LiveCmd::Echo(jitter(K64), 2), LiveCmd::Query(jitter(K64), 3), LiveCmd::Echo(jitter(M1), 4), LiveCmd::Echo(0, 5)],
            1 => vec![LiveCmd::Echo(jitter(8 * M1), 6), LiveCmd::Echo(jitter(10), 7), LiveCmd::Query(jitter(M1), 8), LiveCmd::Echo(jitter(M1), 9)],
            2 => vec![LiveCmd::Echo(jitter(32 * M1), 10), LiveCmd::Echo(jitter(100), 11), LiveCmd::Ping, LiveCmd::Echo(jitter(K64), 12)],
            _ => {
                drop(jitter);
                let n = 2 + t.pick(6);
                let mut budget: usize = args.tier.pick(12, 72) * M1;
                let mut v = Vec::new();
                for j in 0..n {
                    let base = [7usize, K64, M1, 8 * M1, 32 * M1, 300, 2 * M1][t.pick(7)];
                    let size = (base + t.pick(4096)).min(budget);
                    budget -= size.min(budget);
                    let salt = (k * 16 + j) as u32 + 100;
                    v.push(match t.pick(5) {
                        0 => LiveCmd::Ping,
                        1 if size <= 2 * M1 => LiveCmd::Query(size, salt),
                        _ => LiveCmd::Echo(size, salt),
                    });
                }
                v
            }
        };
        // order of the large-reply pipelines varies with the seed; every pipeline ends with a PING
        if k < 3 {
            let mut t2 = Tape::new(&tape[8..]);
            let r = t2.pick(cmds.len());
            cmds.rotate_left(r);
        }
        cmds.push(LiveCmd::Ping);
        out.push(cmds);
    }
    // refused inputs after answered commands on the same connection: each must be answered by
    // exactly one error frame (the server keeps the connection open and goes on)
    let refused: Vec<Vec<u8>> = vec![
        b"*abc\r\n".to_vec(),
        b"$-7\r\n".to_vec(),
        b"\"unclosed quote\r\n".to_vec(),
        b":x\r\n".to_vec(),
        b"_x\r\n".to_vec(),
        b"\r\n".to_vec(),
        b"$abc\r\n".to_vec(),
        b"*-1\r\n".to_vec(),
        b"+\xff\r\n".to_vec(),
        b"ECHO \"aaaaaaaaaaaaaaaaaaaaaaaaaaaaaaaaaaaaaaaaaaaaaaaaaaaaaaaaaa\xc3\xa9\xe2\x82\xac\xf0\x9f\x98\x80 tail\r\n".to_vec(),
    ];
    let r = |i: usize| LiveCmd::Refused(refused[i % refused.len()].clone());
    out.push(vec![LiveCmd::Ping, r(0), LiveCmd::Ping, r(1), LiveCmd::Echo(10, 900), r(2), LiveCmd::Ping]);
    out.push(vec![LiveCmd::Echo(64 * 1024, 901), r(3), LiveCmd::Query(100, 902), r(4), r(5), LiveCmd::Ping]);
    let rt = generate(args.seed ^ 0x22ef, args.tier.pick(1usize, 20usize), &proptest::collection::vec(any::<u16>(), 16));
    for (k, tape) in rt.iter().enumerate() {
        let mut t = Tape::new(tape);
        let n = 3 + t.pick(6);
        let mut v = vec![[LiveCmd::Ping, LiveCmd::Echo(5 + t.pick(2000), 950 + k as u32)][t.pick(2)].clone()];
        for j in 0..n {
            v.push(match t.pick(3) {
                0 => LiveCmd::Ping,
                1 => LiveCmd::Echo(t.pick(3000), 960 + (k * 8 + j) as u32),
                _ => r(t.pick(refused.len())),
            });
        }
        v.push(r(6 + t.pick(4)));
        v.push(LiveCmd::Ping);
        out.push(v);
    }
    out
}

/// returns a failing pipeline (already shrunk) and its message
fn c22_live(args: &Args, ev: &mut Evidence) -> Option<(Vec<LiveCmd>, String)> {
    for cmds in c22_live_pipelines(args) {
        ev.class("live_large_reply_connections");
        for c in &cmds {
            ev.case();
            match c {
                LiveCmd::Ping => ev.class("live_large_reply_cmd_ping"),
                LiveCmd::Refused(_) => {
                    ev.class("live_refused_input");
                    ev.nontrivial(&("live", c));
                }
                LiveCmd::Query(n, _) => {
                    ev.class("live_large_reply_cmd_query");
                    ev.class(&format!("live_large_reply_size_{}", live_size_class(*n)));
                }
                LiveCmd::Echo(n, _) => {
                    ev.class("live_large_reply_cmd_echo");
                    ev.class(&format!("live_large_reply_size_{}", live_size_class(*n)));
                }
            }
            ev.class_n("live_large_reply_bytes", c.reply_size() as u64);
            if c.reply_size() >= 64 * 1024 {
                ev.nontrivial(&("live", c));
            }
        }
        match c22_live_run(&cmds) {
            LiveVerdict::Held => ev.class("live_large_reply_held"),
            LiveVerdict::Inconclusive(m) => {
                eprintln!("INCONCLUSIVE: live large-reply pipeline {}: {m}", c22_live_case_json(&cmds));
                ev.write();
                std::process::exit(2);
            }
            LiveVerdict::Violation(m) => {
                ev.frozen = true;
                // only a failure that shows again with the pipeline run on its own counts
                if !(0..3).any(|_| matches!(c22_live_run(&cmds), LiveVerdict::Violation(_))) {
                    inconclusive_exit(ev, &c22_live_case_json(&cmds), &m);
                }
                // shrink: drop commands (the closing PING stays), then halve the large sizes
                let fails = |c: &[LiveCmd]| {
                    let mut v = c.to_vec();
                    v.push(LiveCmd::Ping);
                    matches!(c22_live_run(&v), LiveVerdict::Violation(_))
                };
                let body: Vec<LiveCmd> = cmds[..cmds.len() - 1].to_vec();
                let mut best = if fails(&body) { shrink_vec(body, &fails) } else { body };
                for i in 0..best.len() {
                    loop {
                        let smaller = match &best[i] {
                            LiveCmd::Echo(n, s) if *n >= 128 * 1024 => LiveCmd::Echo(n / 2, *s),
                            LiveCmd::Query(n, s) if *n >= 128 * 1024 => LiveCmd::Query(n / 2, *s),
                            _ => break,
                        };
                        let mut cand = best.clone();
                        cand[i] = smaller;
                        if fails(&cand) {
                            best = cand;
                        } else {
                            break;
                        }
                    }
                }
                best.push(LiveCmd::Ping);
                let msg = match c22_live_run(&best) {
                    LiveVerdict::Violation(m2) => m2,
                    _ => m,
                };
                return Some((best, msg));
            }
        }
    }
    None
}

fn c22(args: &Args) {
    let mut ev = Evidence::new(
        args,
        "exploration",
        "command sequences through CommandHandler::handle_command on a fresh handler and store (unknown command, GRAPH.QUERY / RO_QUERY / DELETE / LIST, PING, ECHO, INFO; valid and failing query texts: literals, maps, lists, aliases, unknown functions/procedures/variables, syntax errors, regex, type and constraint errors, stored-then-returned values) with a CR/LF plant inserted at EVERY byte position of the command name, graph name, message and query text (enumerated: template x field x position x plant), plus non-array / null / non-UTF-8 command shapes and random mixes of 1-3 plants at random positions (proptest selectors); oracle: encode(reply) read by an independent strict RESP reader (line = up to the first CRLF) is exactly one frame consuming all bytes. Live part: pipelines of ECHO / GRAPH.QUERY / PING commands whose replies are spread over {small, 64 KiB, 1 MiB, 8 MiB, 32 MiB} (fixed coverage of every class + seed-driven mixes, sizes jittered) are written to a real RespServer on a loopback socket without waiting for answers; every reply byte is compared as it arrives with the unique RESP encoding of the expected replies and the complete stream is read by the strict reader: one frame per command, in order, payload intact. Non-trivial = the encoded reply contains the planted CR/LF sequence (error echo or data round trip), or a live reply of >= 64 KiB; distinct = distinct command sequences / distinct live commands.",
    );
    ev.assume("the live large-reply part depends on loopback TCP (127.0.0.1) and an in-process RespServer; verdict rule: a wrong byte, bytes after the last reply, or end-of-stream / reset before every reply arrived is a violation; a correct prefix followed by 180 s without a byte on an open connection is inconclusive (exit 2), never a violation; every pipeline ends with a PING so a reply cut short on the wire is followed by other reply bytes and is seen as a wrong byte, not as a stall");
    let known = Known::load(args);
    let rt = tokio::runtime::Builder::new_current_thread().build().unwrap();

    if let Some(p) = &args.replay {
        let case = load_replay(p);
        if case.get("live").and_then(|l| l.as_bool()).unwrap_or(false) {
            let cmds: Vec<LiveCmd> = case["pipeline"].as_array().cloned().unwrap_or_default().iter().map(LiveCmd::from_json).collect();
            ev.cases(cmds.len() as u64);
            match c22_live_run(&cmds) {
                LiveVerdict::Held => println!("replay: property held"),
                LiveVerdict::Violation(m) => {
                    report_violation(&mut ev, &case, &m);
                }
                LiveVerdict::Inconclusive(m) => {
                    eprintln!("INCONCLUSIVE: {m}");
                    std::process::exit(2);
                }
            }
            ev.nontrivial(&case.to_string());
            ev.nontrivial(&"replay");
            ev.sample(case);
            finish(&ev);
        }
        let (cmds, plant) = c22_case_from(&case);
        ev.case();
        match catch(|| c22_check(&rt, &cmds, &plant, false)) {
            Ok(r) => match r.fail {
                Some(m) => {
                    report_violation(&mut ev, &case, &m);
                }
                None => println!("replay: property held"),
            },
            Err(m) => {
                report_violation(&mut ev, &case, &format!("panic: {m}"));
            }
        }
        ev.nontrivial(&case.to_string());
        ev.nontrivial(&"replay");
        ev.sample(case);
        finish(&ev);
    }

    if let Some(w) = witness_case(&known, "KF-C22-1") {
        let (cmds, plant) = c22_case_from(&w);
        let still = !matches!(catch(|| c22_check(&rt, &cmds, &plant, false)), Ok(C22Res { fail: None, .. }));
        known.witness_result(&mut ev, "KF-C22-1", still);
    }
    let kf_on = known.active("KF-C22-1");

    let mut failure: Option<(Vec<MV>, Vec<u8>, String)> = None;
    let mut run_case = |ev: &mut Evidence, class: &str, cmds: Vec<MV>, plant: &[u8]| -> bool {
        ev.cases(cmds.len() as u64);
        ev.class(class);
        match catch(|| c22_check(&rt, &cmds, plant, kf_on)) {
            Ok(r) => {
                if r.nontrivial {
                    ev.nontrivial(&cmds);
                    ev.class("reply_echoes_plant");
                    if ev.want_sample() && ev.classes.get("reply_echoes_plant").copied().unwrap_or(0) % 997 == 1 {
                        ev.sample(c22_case_json(&cmds, plant));
                    }
                }
                for _ in 0..r.kf_hits {
                    ev.kf_hit("KF-C22-1");
                }
                if r.errors_replies > 0 {
                    ev.class_n("error_replies", r.errors_replies as u64);
                }
                if let Some(m) = r.fail {
                    failure = Some((cmds, plant.to_vec(), m));
                    return false;
                }
                true
            }
            Err(p) => {
                failure = Some((cmds, plant.to_vec(), format!("panic while handling the command: {p}")));
                false
            }
        }
    };

    'search: {
        for (_p, case) in corpus_cases("C22") {
            if case.get("live").and_then(|l| l.as_bool()).unwrap_or(false) {
                let cmds: Vec<LiveCmd> = case["pipeline"].as_array().cloned().unwrap_or_default().iter().map(LiveCmd::from_json).collect();
                ev.cases(cmds.len() as u64);
                ev.class("corpus");
                ev.class("live_corpus_pipeline");
                match c22_live_run(&cmds) {
                    LiveVerdict::Held => {}
                    LiveVerdict::Inconclusive(m) => {
                        eprintln!("INCONCLUSIVE: live corpus pipeline {case}: {m}");
                        ev.write();
                        std::process::exit(2);
                    }
                    LiveVerdict::Violation(m) => {
                        if !(0..3).any(|_| matches!(c22_live_run(&cmds), LiveVerdict::Violation(_))) {
                            inconclusive_exit(&ev, &case, &m);
                        }
                        report_violation(&mut ev, &case, &m);
                        finish(&ev);
                    }
                }
                continue;
            }
            let (cmds, plant) = c22_case_from(&case);
            if !run_case(&mut ev, "corpus", cmds, &plant) {
                break 'search;
            }
        }
        for (cmds, plant) in c22_odd_shapes() {
            if !run_case(&mut ev, "odd_shape", cmds, &plant) {
                break 'search;
            }
        }
        let mut plants: Vec<&str> = PLANTS_QUICK.to_vec();
        if args.tier == Tier::Thorough {
            plants.extend_from_slice(PLANTS_MORE);
        }
        let tpls = c22_templates();
        for t in &tpls {
            for &target in &t.targets {
                let len = t.cmds[target.0][target.1].len();
                for pos in 0..=len {
                    for pl in &plants {
                        let cmds = c22_instantiate(t, target, pos, pl.as_bytes());
                        if !run_case(&mut ev, t.name, cmds, pl.as_bytes()) {
                            break 'search;
                        }
                    }
                }
            }
        }
        ev.exhaustive = Some(true);
        ev.set("exhaustive_bound", json!({"templates": tpls.len(), "plants": plants.len(), "positions": "every byte position of each target field"}));
        {
            // random mixes: 1-3 plants at random positions of random fields
            use proptest::prelude::*;
            let all: Vec<&str> = PLANTS_QUICK.iter().chain(PLANTS_MORE.iter()).copied().collect();
            let tapes = generate(args.seed, args.tier.pick(150_000, 1_000_000), &proptest::collection::vec(any::<u16>(), 12));
            for tape in tapes {
                let mut tp = Tape::new(&tape);
                let t = &tpls[tp.pick(tpls.len())];
                let mut cmds: Vec<Vec<Vec<u8>>> = t.cmds.iter().map(|c| c.iter().map(|a| a.as_bytes().to_vec()).collect()).collect();
                let n = 1 + tp.pick(3);
                let mut last = Vec::new();
                for _ in 0..n {
                    // three times out of four one of the template's target fields, else any argument
                    let (ci, ai) = if tp.pick(4) > 0 {
                        t.targets[tp.pick(t.targets.len())]
                    } else {
                        let ci = tp.pick(cmds.len());
                        (ci, tp.pick(cmds[ci].len()))
                    };
                    let pl = all[tp.pick(all.len())].as_bytes();
                    let at = tp.pick(cmds[ci][ai].len() + 1);
                    let tail = cmds[ci][ai].split_off(at);
                    cmds[ci][ai].extend_from_slice(pl);
                    cmds[ci][ai].extend_from_slice(&tail);
                    last = pl.to_vec();
                }
                let mvs: Vec<MV> = cmds.iter().map(|c| MV::Array(c.iter().map(|a| bulk(a)).collect())).collect();
                if !run_case(&mut ev, "random_multi_plant", mvs, &last) {
                    break 'search;
                }
            }
        }
    }
    drop(run_case);

    if let Some((cmds, plant, original)) = failure {
        ev.frozen = true;
        match c22_shrink(&rt, cmds.clone(), &plant, kf_on) {
            Some((min, msg)) => {
                report_violation(&mut ev, &c22_case_json(&min, &plant), &msg);
            }
            None => inconclusive_exit(&ev, &c22_case_json(&cmds, &plant), &original),
        }
        finish(&ev);
    }
    // live part: large replies as they appear on the wire
    if let Some((cmds, msg)) = c22_live(args, &mut ev) {
        report_violation(&mut ev, &c22_live_case_json(&cmds), &msg);
    } else {
        ev.max_samples += 1;
        ev.sample(json!({"live_pipeline_example": c22_live_pipelines(args).get(1).map(|c| c22_live_case_json(c))}));
    }
    finish(&ev);
}
// =======================================================================================
// C24

use samyama::graph::GraphStore;
use samyama::nlq::{NLQError, NLQPipeline};
use samyama::persistence::tenant::{LLMProvider, NLQConfig};
use samyama::query::executor::QueryPlanner;
use samyama::query::{parse_query, MutQueryExecutor};
use std::sync::atomic::{AtomicU64, Ordering as AO};
use std::sync::{Arc, Mutex};

/// run `f` with fd 1 pointed at /dev/null (solver procedures print progress lines)
fn silenced<T>(f: impl FnOnce() -> T) -> T {
    use std::io::Write;
    let _ = std::io::stdout().flush();
    unsafe {
        let saved = libc::dup(1);
        let devnull = libc::open(b"/dev/null\0".as_ptr() as *const libc::c_char, libc::O_WRONLY);
        libc::dup2(devnull, 1);
        libc::close(devnull);
        let r = f();
        let _ = std::io::stdout().flush();
        libc::dup2(saved, 1);
        libc::close(saved);
        r
    }
}

/// loopback stand-in for the Ollama API: answers POST /api/generate with the configured
/// response, but only when the prompt carries the expected case marker
struct Stub {
    port: u16,
    state: Arc<Mutex<(String, String)>>, // (marker, response)
    served: Arc<AtomicU64>,
}

fn stub_conn(mut s: std::net::TcpStream, state: Arc<Mutex<(String, String)>>, served: Arc<AtomicU64>) {
    use std::io::{Read, Write};
    let mut buf: Vec<u8> = Vec::new();
    let mut tmp = [0u8; 16384];
    loop {
        let hdr_end = loop {
            if let Some(p) = find_sub(&buf, b"\r\n\r\n") {
                break p + 4;
            }
            match s.read(&mut tmp) {
                Ok(0) | Err(_) => return,
                Ok(k) => buf.extend_from_slice(&tmp[..k]),
            }
        };
        let head = String::from_utf8_lossy(&buf[..hdr_end]).to_string();
        let mut cl = 0usize;
        for line in head.lines() {
            let l = line.to_ascii_lowercase();
            if let Some(v) = l.strip_prefix("content-length:") {
                cl = v.trim().parse().unwrap_or(0);
            }
        }
        while buf.len() < hdr_end + cl {
            match s.read(&mut tmp) {
                Ok(0) | Err(_) => return,
                Ok(k) => buf.extend_from_slice(&tmp[..k]),
            }
        }
        let body = buf[hdr_end..hdr_end + cl].to_vec();
        buf.drain(..hdr_end + cl);
        let (marker, response) = state.lock().unwrap().clone();
        let prompt_ok = serde_json::from_slice::<J>(&body).ok().and_then(|j| j.get("prompt").and_then(|p| p.as_str()).map(|p| p.contains(&marker))).unwrap_or(false);
        let (status, payload) = if head.starts_with("POST /api/generate") && prompt_ok {
            served.fetch_add(1, AO::SeqCst);
            ("200 OK", json!({"model": "stub", "response": response, "done": true}).to_string())
        } else {
            ("500 Internal Server Error", json!({"error": "stub: unexpected request"}).to_string())
        };
        let msg = format!("HTTP/1.1 {status}\r\nContent-Type: application/json\r\nContent-Length: {}\r\n\r\n{payload}", payload.len());
        if s.write_all(msg.as_bytes()).is_err() {
            return;
        }
    }
}

fn start_stub() -> Stub {
    let l = std::net::TcpListener::bind("127.0.0.1:0").expect("bind stub");
    let port = l.local_addr().unwrap().port();
    let state = Arc::new(Mutex::new((String::new(), String::new())));
    let served = Arc::new(AtomicU64::new(0));
    let (st, sv) = (state.clone(), served.clone());
    std::thread::spawn(move || {
        for c in l.incoming().flatten() {
            let (st, sv) = (st.clone(), sv.clone());
            std::thread::spawn(move || stub_conn(c, st, sv));
        }
    });
    Stub { port, state, served }
}

const C24_GRAPHS: &[&[&str]] = &[
    &[],
    &["CREATE (a:Person {name: 'Ann', age: 30})"],
    &[
        "CREATE (a:Person {name: 'Ann', age: 30})-[:KNOWS {since: 2020}]->(b:Person {name: 'Bob', age: 25})",
        "CREATE (c:City {name: 'Oslo'})",
        "MATCH (a:Person {name: 'Ann'}), (c:City {name: 'Oslo'}) CREATE (a)-[:LIVES_IN]->(c)",
    ],
    &[
        "CREATE (a:Person {name: 'Ann', age: 30})-[:KNOWS {since: 2020}]->(b:Person {name: 'Bob', age: 25})",
        "CREATE (c:City {name: 'Oslo'})",
        "CREATE INDEX ON :Person(name)",
        "CREATE CONSTRAINT ON (p:Person) ASSERT p.name IS UNIQUE",
    ],
    &[
        "CREATE (a:Person {name: 'Ann', age: 30})-[:KNOWS]->(b:Person {name: 'Bob', age: 25})",
        "CREATE (x:Cat {name: 'root', m: 1})<-[:PARENT]-(y:Cat {name: 'kid', m: 2})",
        "CREATE HIERARCHY INDEX h ON ()-[:PARENT]->()",
        "CREATE VECTOR INDEX vdoc FOR (n:Doc) ON (n.emb) OPTIONS {dimensions: 3, similarity: 'cosine'}",
        "CREATE INDEX ON :Person(name)",
    ],
];

fn c24_build(gi: usize) -> GraphStore {
    let mut store = GraphStore::new();
    for stmt in C24_GRAPHS[gi] {
        let q = parse_query(stmt).unwrap_or_else(|e| {
            eprintln!("INCONCLUSIVE: C24 graph setup statement does not parse: {stmt}: {e}");
            std::process::exit(2)
        });
        let r = silenced(|| MutQueryExecutor::new(&mut store, "default".to_string()).execute(&q).map(|_| ()));
        if let Err(e) = r {
            eprintln!("INCONCLUSIVE: C24 graph setup statement failed: {stmt}: {e}");
            std::process::exit(2);
        }
    }
    store
}

/// everything the property says must not change
fn c24_state(store: &GraphStore) -> Vec<String> {
    let mut out = vec![vcheck::dump::dump_with_ids(store).render()];
    out.extend(vcheck::dump::schema_dump(store));
    let mut h: Vec<String> = store.hierarchy_index.list().iter().map(|i| format!("hierarchy:{i:?}")).collect();
    h.sort();
    out.extend(h);
    let mut v: Vec<String> = store.vector_index.list_indices().iter().map(|k| format!("vector:{}:{}", k.label, k.property_key)).collect();
    v.sort();
    out.extend(v);
    out
}

struct C24Ctx {
    rt: tokio::runtime::Runtime,
    stub: Stub,
    pipeline: NLQPipeline,
    counter: u64,
}

impl C24Ctx {
    fn new() -> C24Ctx {
        std::env::set_var("NO_PROXY", "127.0.0.1,localhost");
        std::env::set_var("no_proxy", "127.0.0.1,localhost");
        let stub = start_stub();
        let url = format!("http://127.0.0.1:{}", stub.port);
        std::env::set_var("NLQ_PROVIDER", "ollama");
        std::env::set_var("NLQ_MODEL", "stub");
        std::env::set_var("NLQ_API_BASE_URL", &url);
        let rt = tokio::runtime::Builder::new_current_thread().enable_all().build().unwrap();
        let pipeline = NLQPipeline::new(NLQConfig { enabled: true, provider: LLMProvider::Ollama, model: "stub".into(), api_key: None, api_base_url: Some(url), system_prompt: None }).unwrap_or_else(|e| {
            eprintln!("INCONCLUSIVE: cannot build the NLQ pipeline: {e}");
            std::process::exit(2)
        });
        C24Ctx { rt, stub, pipeline, counter: 0 }
    }

    /// what the natural-language endpoint hands back for this model response:
    /// Ok(Some(stmt)) handed back, Ok(None) rejected, Err = harness/transport trouble
    fn ask(&mut self, response: &str, store: &GraphStore, via_http: bool) -> Result<Option<String>, String> {
        self.counter += 1;
        let marker = format!("verif-case-{}", self.counter);
        *self.stub.state.lock().unwrap() = (marker.clone(), response.to_string());
        let before = self.stub.served.load(AO::SeqCst);
        let out = if via_http {
            self.ask_http(&marker, store)
        } else {
            let schema = store.schema_summary();
            match self.rt.block_on(self.pipeline.text_to_cypher(&marker, &schema)) {
                Ok(s) => Ok(Some(s)),
                Err(NLQError::ValidationError(_)) => Ok(None),
                Err(e) => Err(format!("pipeline transport error: {e}")),
            }
        };
        if self.stub.served.load(AO::SeqCst) != before + 1 {
            return Err(format!("the stub served {} requests for one question ({out:?})", self.stub.served.load(AO::SeqCst) - before));
        }
        out
    }

    /// the same through the shipped router: POST /api/nlq
    fn ask_http(&mut self, marker: &str, store: &GraphStore) -> Result<Option<String>, String> {
        use http_body_util::BodyExt;
        use tower::util::ServiceExt;
        // the handler needs a shared store only for schema_summary: give it one with the same schema text
        let _ = store;
        let shared = Arc::new(tokio::sync::RwLock::new(GraphStore::new()));
        let router = samyama::http::server::HttpServer::new(shared, 0).router();
        let req = axum::http::Request::builder()
            .method("POST")
            .uri("/api/nlq")
            .header("content-type", "application/json")
            .body(axum::body::Body::from(json!({ "question": marker }).to_string()))
            .unwrap();
        let (status, body) = self.rt.block_on(async move {
            let resp = router.oneshot(req).await.map_err(|e| format!("router: {e}"))?;
            let status = resp.status();
            let bytes = resp.into_body().collect().await.map_err(|e| format!("body: {e}"))?.to_bytes();
            Ok::<_, String>((status, bytes))
        })?;
        let j: J = serde_json::from_slice(&body).map_err(|e| format!("/api/nlq answered non-JSON: {e}"))?;
        if status == axum::http::StatusCode::OK {
            Ok(Some(j["cypher"].as_str().unwrap_or("").to_string()))
        } else if status == axum::http::StatusCode::BAD_REQUEST && j["error"].as_str().map(|e| e.contains("Validation error")).unwrap_or(false) {
            Ok(None)
        } else {
            Err(format!("/api/nlq answered {status}: {j}"))
        }
    }
}

/// the acceptance rule of the pinned tree (known finding KF-C24-1): first keyword only
fn c24_quirk_accepts(stmt: &str) -> bool {
    let t = stmt.trim().to_uppercase();
    ["MATCH", "RETURN", "UNWIND", "CALL", "WITH"].iter().any(|k| t.starts_with(k))
}

#[derive(Debug)]
struct C24Res {
    class: &'static str,
    handed_back: Option<String>,
    kf: bool,
    fail: Option<String>,
}

fn c24_check(ctx: &mut C24Ctx, gi: usize, response: &str, via_http: bool, kf_on: bool) -> C24Res {
    let store = c24_build(gi);
    let stmt = match ctx.ask(response, &store, via_http) {
        Ok(Some(s)) => s,
        Ok(None) => return C24Res { class: "rejected", handed_back: None, kf: false, fail: None },
        Err(e) => {
            eprintln!("INCONCLUSIVE: {e}");
            std::process::exit(2);
        }
    };
    c24_effect(&stmt, gi, response, kf_on)
}

/// second half of the oracle: what the handed-back statement does on graph `gi`
fn c24_effect(stmt: &str, gi: usize, response: &str, kf_on: bool) -> C24Res {
    let stmt = stmt.to_string();
    let mut twin = c24_build(gi);
    let before = c24_state(&twin);
    let q = match catch(|| parse_query(&stmt)) {
        Ok(Ok(q)) => q,
        Ok(Err(_)) => return C24Res { class: "handed_back_unparseable", handed_back: Some(stmt), kf: false, fail: None },
        Err(m) => return C24Res { class: "handed_back_parser_panic", handed_back: Some(stmt.clone()), kf: false, fail: Some(format!("parser panicked on the handed-back statement {stmt:?}: {m}")) },
    };
    let planned_write = match catch(|| QueryPlanner::new().plan(&q, &twin).map(|p| p.is_write)) {
        Ok(Ok(w)) => Some(w),
        Ok(Err(_)) => None,
        Err(_) => None,
    };
    let exec = silenced(|| catch(|| MutQueryExecutor::new(&mut twin, "default".to_string()).execute(&q).map(|b| b.records.len())));
    let after = c24_state(&twin);
    let changed = before != after;
    if planned_write == Some(true) || changed {
        let why = format!(
            "model response {response:?} on graph #{gi}: the endpoint handed back {stmt:?}; planner is_write = {planned_write:?}; executing it {} ({})",
            if changed { "CHANGED the store" } else { "left the store unchanged" },
            if changed {
                let bl: Vec<&str> = before.iter().flat_map(|s| s.lines()).collect();
                let al: Vec<&str> = after.iter().flat_map(|s| s.lines()).collect();
                let gone: Vec<&&str> = bl.iter().filter(|l| !al.contains(l)).collect();
                let new: Vec<&&str> = al.iter().filter(|l| !bl.contains(l)).collect();
                format!("removed {gone:?}, added {new:?}")
            } else {
                format!("execution result {:?}", exec.as_ref().map(|r| r.as_ref().map_err(|e| e.to_string())))
            }
        );
        if kf_on && c24_quirk_accepts(&stmt) {
            return C24Res { class: "handed_back_mutating_known", handed_back: Some(stmt), kf: true, fail: None };
        }
        return C24Res { class: "handed_back_mutating", handed_back: Some(stmt), kf: false, fail: Some(why) };
    }
    let class = match (&exec, planned_write) {
        (Err(_), _) => "handed_back_exec_panic_no_change",
        (Ok(Err(_)), None) => "handed_back_unplannable",
        (Ok(Err(_)), _) => "handed_back_read_exec_error",
        (Ok(Ok(_)), _) => "handed_back_read_only",
    };
    C24Res { class, handed_back: Some(stmt), kf: false, fail: None }
}

const C24_PREFIXES: &[&str] = &[
    "MATCH (n:Person)",
    "OPTIONAL MATCH (n:Person)",
    "MATCH (m) WITH m MATCH (n:Person)",
    "UNWIND [1] AS i MATCH (n:Person)",
    "CALL db.labels() YIELD label MATCH (n:Person)",
    "WITH 1 AS one MATCH (n:Person)",
    "RETURN 1 AS one UNION MATCH (n:Person)",
];
/// read parts holding a ';' that is not a statement separator (or, for the backticked name,
/// text the grammar refuses)
const C24_SEMI_PREFIXES: &[&str] = &[
    "MATCH (n:Person) WHERE n.name <> 'a;b'",
    "MATCH (n:Person) WHERE n.name <> \"a;b\"",
    "MATCH (n:Person) WHERE n.name <> ';'",
    "MATCH (n:Person {name: 'x;y'})",
    "MATCH (n:Person) /* note; here */",
    "MATCH (n:Person) // first; part\n",
    "WITH 'a;b' AS s MATCH (n:Person)",
    "UNWIND ['a;b', ';'] AS s MATCH (n:Person)",
    "RETURN 'a;b' AS s UNION MATCH (n:Person)",
    "MATCH (n:`Per;son`)",
    "MATCH (n:Person) WHERE n.name = 'Ann' OR n.name = 'it''s; fine'",
];
const C24_WRITES: &[&str] = &[
    "CREATE (x:Evil)",
    "CREATE (n)-[:OWNS]->(x:Evil)",
    "MERGE (x:Evil {k: 1})",
    "SET n.hacked = true",
    "SET n:Hacked",
    "REMOVE n.name",
    "REMOVE n:Person",
    "DELETE n",
    "DETACH DELETE n",
    "FOREACH (i IN [1, 2] | CREATE (:Evil {i: i}))",
    "FOREACH (i IN [1] | SET n.f = i)",
    "CALL algo.or.solve({label: 'Person', property: 'alloc', cost_property: 'age', max_iterations: 3, population_size: 4})",
    "CALL samyama.OR.Solve({label: 'Person', property: 'alloc2', cost_property: 'age', max_iterations: 3, population_size: 4})",
];
/// stand-alone statements (DDL, write procedures, plain writes) reached through UNION,
/// CALL { } and line breaks after a read statement
const C24_STANDALONE: &[&str] = &[
    "CREATE INDEX ON :Person(age)",
    "DROP INDEX ON :Person(name)",
    "CREATE CONSTRAINT ON (p:Person) ASSERT p.age IS UNIQUE",
    "CREATE VECTOR INDEX vi FOR (n:Person) ON (n.emb) OPTIONS {dimensions: 3, similarity: 'cosine'}",
    "CREATE HIERARCHY INDEX hx ON ()-[:KNOWS]->()",
    "DROP HIERARCHY INDEX h",
    "REBUILD HIERARCHY INDEX h",
    "CALL algo.or.solve({label: 'Person', property: 'alloc', cost_property: 'age', max_iterations: 3, population_size: 4})",
    "CREATE (x:Evil) RETURN 1 AS one",
    "MATCH (n:Person) DETACH DELETE n RETURN 1 AS one",
];
const C24_READ_FIRST: &[&str] = &["MATCH (n:Person) RETURN 1 AS one", "RETURN 1 AS one", "CALL db.labels() YIELD label RETURN 1 AS one", "UNWIND [1] AS one RETURN one", "WITH 1 AS one RETURN one"];

fn c24_wrappers(t: &str) -> Vec<(&'static str, String)> {
    vec![
        ("plain", t.to_string()),
        ("fence_cypher", format!("```cypher\n{t}\n```")),
        ("fence_plain", format!("```\n{t}\n```")),
        ("explanation_fence", format!("Here is the query:\n```cypher\n{t}\n```\nHope this helps!")),
        ("two_fences_write_first", format!("```cypher\n{t}\n```\nor alternatively\n```cypher\nMATCH (n) RETURN n\n```")),
        ("two_fences_read_first", format!("```cypher\nMATCH (n) RETURN n\n```\nand then\n```cypher\n{t}\n```")),
        ("explanation_lines", format!("To do this, run:\n{t}\nThis will work.")),
        ("leading_blank_lines", format!("\n\n   {t}\n")),
        ("lower_case", t.to_lowercase()),
        ("comment_first", format!("// generated query\n{t}")),
        ("unclosed_fence", format!("```cypher\n{t}")),
        ("fence_crlf", format!("```cypher\r\n{t}\r\n```\r\n")),
        ("inline_fence", format!("Use ```{t}``` please")),
    ]
}

/// the enumerated cross product of model responses: (class, core statement text)
fn c24_cores() -> Vec<(&'static str, String, bool)> {
    let mut v = Vec::new();
    for p in C24_PREFIXES {
        for w in C24_WRITES {
            for sep in [" ", "\n"] {
                for suffix in ["", " RETURN 1 AS done"] {
                    v.push(("prefix_then_write", format!("{p}{sep}{w}{suffix}"), true));
                }
            }
        }
        // read-only controls
        v.push(("read_only_control", format!("{p} RETURN n"), false));
        v.push(("read_only_control", format!("{p}\nRETURN count(n) AS c"), false));
    }
    for r in C24_READ_FIRST {
        for s in C24_STANDALONE {
            v.push(("read_union_standalone", format!("{r} UNION {s}"), true));
            v.push(("read_newline_standalone", format!("{r}\n{s}"), true));
            v.push(("read_semicolon_standalone", format!("{r}; {s}"), true));
        }
    }
    // ';' where a statement splitter would trip: inside quoted literals, comments and
    // backticked names before the write clause, inside the write clause, as trailing /
    // leading separator, and between several statements
    let semi_writes: Vec<&str> = C24_WRITES.iter().copied().chain(["SET n.note = 'x;y'", "CREATE (x:Evil {s: 'p;q'})", "MERGE (x:Evil {k: ';'})"]).collect();
    for p in C24_SEMI_PREFIXES {
        for w in &semi_writes {
            for suffix in ["", ";", " RETURN 1 AS done"] {
                v.push(("semicolon_in_read_part_then_write", format!("{p} {w}{suffix}"), true));
            }
        }
        v.push(("semicolon_read_only_control", format!("{p} RETURN n"), false));
        v.push(("semicolon_read_only_control", format!("{p} RETURN count(n) AS c;"), false));
    }
    for w in C24_WRITES {
        for lead in ["; ", "  ;\n", ";;"] {
            v.push(("semicolon_leading", format!("{lead}MATCH (n:Person) {w}"), true));
        }
        for trail in [";", " ; ", ";;", ";\n"] {
            v.push(("semicolon_trailing", format!("MATCH (n:Person) {w}{trail}"), true));
        }
        v.push(("semicolon_write_then_read", format!("MATCH (n:Person) {w}; MATCH (m) RETURN m"), true));
        v.push(("semicolon_read_then_write", format!("MATCH (m) WHERE m.name <> 'a;b' RETURN m; MATCH (n:Person) {w}"), true));
        v.push(("semicolon_read_then_write", format!("RETURN ';' AS s; MATCH (n:Person) {w}"), true));
    }
    for s in C24_STANDALONE.iter().chain(C24_WRITES.iter()) {
        v.push(("call_subquery_write", format!("CALL {{ {s} }} RETURN 1 AS one"), true));
        v.push(("standalone_write", s.to_string(), true));
        v.push(("explain_write", format!("EXPLAIN {s}"), true));
    }
    v
}

fn c24_case_json(gi: usize, response: &str, via_http: bool) -> J {
    json!({"graph": gi, "response": response, "via_http": via_http})
}

fn c24(args: &Args) {
    let mut ev = Evidence::new(
        args,
        "exploration",
        "model responses served by a loopback Ollama stub to the real NLQPipeline::text_to_cypher (and, for the plain and ```cypher-fenced forms, also through POST /api/nlq of the shipped router): full cross product {MATCH, OPTIONAL MATCH, MATCH..WITH, UNWIND, CALL..YIELD, WITH, RETURN..UNION} prefixes x {CREATE, CREATE rel, MERGE, SET prop, SET label, REMOVE prop, REMOVE label, DELETE, DETACH DELETE, FOREACH create, FOREACH set, CALL algo.or.solve, CALL samyama.OR.Solve} x {space, newline} x {no RETURN, RETURN}; ';' inside single-/double-quoted literals, comments and a backticked name before the write clause, inside the write clause, as leading / trailing separator and between statements (write after read, read after write); stand-alone DDL/write statements (CREATE/DROP INDEX, CREATE CONSTRAINT, CREATE VECTOR/HIERARCHY INDEX, DROP/REBUILD HIERARCHY INDEX, algo.or.solve) after a read via UNION / newline / semicolon / CALL {} / EXPLAIN; read-only controls; each wrapped 13 ways (plain, fences with and without tag, two fenced blocks, explanations, blank lines, lower case, comment, unclosed fence, CRLF, inline fence) x 5 graphs (empty .. with property index, unique constraint, hierarchy and vector index), plus random mixes of read clauses, write clauses and stand-alone statements joined by space / newline / UNION / semicolon under a random wrapper. Oracle: a handed-back statement plans with is_write == false and, executed with MutQueryExecutor on a twin store, leaves nodes, edges, properties, indexes, constraints, hierarchy and vector index lists unchanged. The pipeline is called once per response (the decision does not see the graph); the effect of a handed-back statement is evaluated on each of the 5 graphs, memoised per (statement, graph). A case = (response, graph). Non-trivial = the response holds a write/DDL clause after a read prefix; distinct = distinct (response, graph).",
    );
    ev.assume("unparseable text that is handed back cannot mutate anything: counted (handed_back_unparseable), not flagged");
    let known = Known::load(args);
    let mut ctx = C24Ctx::new();

    if let Some(p) = &args.replay {
        let case = load_replay(p);
        let gi = case["graph"].as_u64().unwrap_or(0) as usize % C24_GRAPHS.len();
        let resp = case["response"].as_str().unwrap_or("").to_string();
        let via = case["via_http"].as_bool().unwrap_or(false);
        ev.case();
        let r = c24_check(&mut ctx, gi, &resp, via, false);
        match r.fail {
            Some(m) => {
                report_violation(&mut ev, &case, &m);
            }
            None => println!("replay: property held ({})", r.class),
        }
        ev.nontrivial(&case.to_string());
        ev.nontrivial(&"replay");
        ev.sample(case);
        finish(&ev);
    }

    if let Some(w) = witness_case(&known, "KF-C24-1") {
        let gi = w["graph"].as_u64().unwrap_or(0) as usize % C24_GRAPHS.len();
        let r = c24_check(&mut ctx, gi, w["response"].as_str().unwrap_or(""), false, false);
        known.witness_result(&mut ev, "KF-C24-1", r.fail.is_some());
    }
    let kf_on = known.active("KF-C24-1");

    let mut failure: Option<(usize, String, bool, String)> = None;
    let dbg = std::env::var("VC_DEBUG").is_ok();
    // effects are a function of (statement, graph): memoised, the pipeline call never is
    let mut memo: std::collections::HashMap<(String, usize), (&'static str, bool, Option<String>)> = std::collections::HashMap::new();
    let all_graphs: Vec<usize> = (0..C24_GRAPHS.len()).collect();
    // read-only copies used for the schema summary that goes into the prompt
    let schema_stores: Vec<GraphStore> = all_graphs.iter().map(|g| c24_build(*g)).collect();
    let mut run = |ev: &mut Evidence, ctx: &mut C24Ctx, gen_class: &str, wrapper: &str, graphs: &[usize], resp: &str, via: bool, has_write: bool| -> bool {
        ev.case();
        ev.class(gen_class);
        ev.class(&format!("wrapper_{wrapper}"));
        if via {
            ev.class("via_http_route");
        }
        let stmt = match ctx.ask(resp, &schema_stores[graphs[0]], via) {
            Ok(s) => s,
            Err(e) => {
                eprintln!("INCONCLUSIVE: {e}");
                std::process::exit(2);
            }
        };
        if dbg {
            eprintln!("C24 {gen_class}/{wrapper} {:?} -> {:?}", resp, stmt);
        }
        let stmt = match stmt {
            None => {
                ev.class("rejected");
                if has_write {
                    ev.nontrivial(&(resp, usize::MAX));
                }
                return true;
            }
            Some(s) => s,
        };
        // one case per (response, graph): the first was counted above
        ev.cases(graphs.len() as u64 - 1);
        for &gi in graphs {
            if has_write {
                ev.nontrivial(&(resp, gi));
            }
            let key = (stmt.clone(), gi);
            if !memo.contains_key(&key) {
                let r = c24_effect(&stmt, gi, resp, kf_on);
                memo.insert(key.clone(), (r.class, r.kf, r.fail));
                ev.class("effect_executed");
            }
            let (class, kf, fail) = memo.get(&key).unwrap().clone();
            ev.class(class);
            if has_write && ev.want_sample() && ev.evaluations % 1499 == 1 {
                ev.sample(json!({"graph": gi, "response": resp, "handed_back": stmt, "verdict": class}));
            }
            if kf {
                ev.kf_hit("KF-C24-1");
                if ev.want_sample() && ev.kf_hits.get("KF-C24-1").copied().unwrap_or(0) % 211 == 1 {
                    ev.sample(json!({"graph": gi, "response": resp, "handed_back": stmt, "verdict": class}));
                }
            }
            if let Some(m) = fail {
                failure = Some((gi, resp.to_string(), via, m));
                return false;
            }
        }
        true
    };

    'search: {
        for (_p, case) in corpus_cases("C24") {
            let gi = case["graph"].as_u64().unwrap_or(0) as usize % C24_GRAPHS.len();
            let resp = case["response"].as_str().unwrap_or("").to_string();
            if !run(&mut ev, &mut ctx, "corpus", "corpus", &[gi], &resp, case["via_http"].as_bool().unwrap_or(false), true) {
                break 'search;
            }
        }
        let cores = c24_cores();
        for (class, core, has_write) in &cores {
            for (wname, resp) in c24_wrappers(core) {
                if !run(&mut ev, &mut ctx, class, wname, &all_graphs, &resp, false, *has_write) {
                    break 'search;
                }
                // the plain and fenced forms also go through the shipped HTTP route
                if (wname == "plain" || wname == "fence_cypher") && !run(&mut ev, &mut ctx, class, wname, &[2], &resp, true, *has_write) {
                    break 'search;
                }
            }
        }
        ev.exhaustive = Some(true);
        ev.set("exhaustive_bound", json!({"cores": cores.len(), "wrappers": 13, "graphs": C24_GRAPHS.len()}));
        {
            // random mixes of clauses, separators and wrappers
            use proptest::prelude::*;
            let tapes = generate(args.seed, args.tier.pick(4_000, 50_000), &proptest::collection::vec(any::<u16>(), 16));
            let reads = ["MATCH (n:Person)", "OPTIONAL MATCH (n:Person)-[:KNOWS]->(o)", "WITH n", "UNWIND [1, 2] AS i", "WHERE n.age > 1", "WHERE n.name <> 'a;b'", "WITH 'x;y' AS s", "/* c; */", "CALL db.labels() YIELD label", "RETURN n", "RETURN count(*) AS c", "ORDER BY n.name", "LIMIT 1"];
            for tape in tapes {
                let mut t = Tape::new(&tape);
                let n = 1 + t.pick(5);
                let mut parts: Vec<String> = Vec::new();
                let mut has_write = false;
                for _ in 0..n {
                    match t.pick(3) {
                        0 => {
                            parts.push(C24_WRITES[t.pick(C24_WRITES.len())].to_string());
                            has_write = true;
                        }
                        1 if t.pick(4) == 0 => {
                            parts.push(C24_STANDALONE[t.pick(C24_STANDALONE.len())].to_string());
                            has_write = true;
                        }
                        _ => parts.push(reads[t.pick(reads.len())].to_string()),
                    }
                }
                let mut core = String::new();
                for (i, p) in parts.iter().enumerate() {
                    if i > 0 {
                        core.push_str([" ", "\n", " UNION ", "; ", "\n\n"][t.pick(5)]);
                    }
                    core.push_str(p);
                }
                let ws = c24_wrappers(&core);
                let (wname, resp) = &ws[t.pick(ws.len())];
                let gi = t.pick(C24_GRAPHS.len());
                if !run(&mut ev, &mut ctx, "random_mix", wname, &[gi], resp, false, has_write) {
                    break 'search;
                }
            }
        }
    }
    drop(run);

    if let Some((gi, resp, via, msg)) = failure {
        ev.frozen = true;
        // only a failure that shows again with the case run on its own counts
        if !(0..3).any(|_| c24_check(&mut ctx, gi, &resp, via, kf_on).fail.is_some()) {
            inconclusive_exit(&ev, &c24_case_json(gi, &resp, via), &msg);
        }
        // shrink: smallest graph, then drop lines of the response
        let mut best = (gi, resp, msg);
        for g in 0..gi {
            let r = c24_check(&mut ctx, g, &best.1, via, kf_on);
            if let Some(m) = r.fail {
                best = (g, best.1.clone(), m);
                break;
            }
        }
        let lines: Vec<String> = best.1.split('\n').map(|s| s.to_string()).collect();
        let g = best.0;
        let min_lines = {
            let ctxc = RefCell::new(&mut ctx);
            let fails = |c: &[String]| c24_check(&mut ctxc.borrow_mut(), g, &c.join("\n"), via, kf_on).fail.is_some();
            shrink_vec(lines, &fails)
        };
        let resp2 = min_lines.join("\n");
        if let Some(m) = c24_check(&mut ctx, g, &resp2, via, kf_on).fail {
            best = (g, resp2, m);
        }
        report_violation(&mut ev, &c24_case_json(best.0, &best.1, via), &best.2);
    }
    finish(&ev);
}
