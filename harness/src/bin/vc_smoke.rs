fn main() { let s = samyama::graph::GraphStore::new(); println!("{}", s.node_count()); }
