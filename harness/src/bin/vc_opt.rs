//! C34 — optimisation solvers: in-bounds, consistent, reproducible (DESIGN §4 "C34").
//!
//! Every solver exported by `samyama_optimization::algorithms` (adapter table below: 29
//! single-objective adapters over 25 solver types, 6 multi-objective adapters over 4 types) is
//! run on generated box-constrained problems with small configurations, several seeds, and
//! rayon pools of 1 and 8 threads. Oracle (single-objective): lower <= best_variables <= upper;
//! problem.fitness(best_variables) is bit-equal to best_fitness (every solver returns a stored
//! (variables, fitness) pair that was produced by one call of problem.fitness - none recomputes,
//! so no tolerance is needed); history never increases and the final best is not worse than the
//! last history entry; the result (best, variables, whole history) is bit-identical for equal
//! seeds across repeated runs and across the 1-thread and 8-thread pools. Multi-objective: every
//! front member in bounds, fitness == objectives(vars) and violation == sum(penalties(vars))
//! bit-equal, no member dominates another under `moo::constrained_dominates`, and the front and
//! history are bit-identical for equal seeds across runs and pools.
use ndarray::Array1;
use proptest::prelude::*;
use samyama_optimization::algorithms::*;
use samyama_optimization::common::{MultiObjectiveProblem, MultiObjectiveResult, OptimizationResult, Problem, SolverConfig};
use samyama_optimization::moo::constrained_dominates;
use serde::{Deserialize, Serialize};
use serde_json::json;
use std::io::Write;
use std::os::unix::io::AsRawFd;
use std::sync::Mutex;
use vcheck::*;

const KF_DEGENERATE: &str = "KF-C34-1";
const KF_QOJAYA: &str = "KF-C34-2";
const EMPTY_RANGE: &str = "cannot sample empty range";

// ---------------------------------------------------------------------------------------
// stdout handling: the solvers print progress lines with println!; fd 1 points at /dev/null
// while they run and is switched back for our own lines.

struct RealOut {
    saved: std::fs::File,
}

impl RealOut {
    fn with<T>(&self, f: impl FnOnce() -> T) -> T {
        let _ = std::io::stdout().flush();
        let null = unsafe { libc::dup(1) };
        unsafe { libc::dup2(self.saved.as_raw_fd(), 1) };
        let r = f();
        let _ = std::io::stdout().flush();
        unsafe {
            libc::dup2(null, 1);
            libc::close(null);
        }
        r
    }
    fn restore(&self) {
        let _ = std::io::stdout().flush();
        unsafe { libc::dup2(self.saved.as_raw_fd(), 1) };
    }
}

// ---------------------------------------------------------------------------------------
// panic capture across rayon workers: the library's thread-local capture loses the message when
// the panic happens on another worker thread, so this binary keeps its own process-wide record.

static PANICS: Mutex<Vec<String>> = Mutex::new(Vec::new());

fn install_panic_hook() {
    std::panic::set_hook(Box::new(|info| {
        let msg = if let Some(s) = info.payload().downcast_ref::<&str>() {
            s.to_string()
        } else if let Some(s) = info.payload().downcast_ref::<String>() {
            s.clone()
        } else {
            "<non-string panic>".to_string()
        };
        let loc = info.location().map(|l| format!("{}:{}", l.file(), l.line())).unwrap_or_default();
        if let Ok(mut p) = PANICS.lock() {
            p.push(format!("{msg} @ {loc}"));
        }
    }));
}

fn catch_all<T>(f: impl FnOnce() -> T) -> Result<T, String> {
    if let Ok(mut p) = PANICS.lock() {
        p.clear();
    }
    match std::panic::catch_unwind(std::panic::AssertUnwindSafe(f)) {
        Ok(v) => Ok(v),
        Err(_) => {
            let mut msgs = PANICS.lock().map(|p| p.clone()).unwrap_or_default();
            msgs.sort(); // several workers may panic concurrently: make the choice deterministic
            Err(msgs.into_iter().next().unwrap_or_else(|| "panic".to_string()))
        }
    }
}

// ---------------------------------------------------------------------------------------
// generated problems

#[derive(Clone, Copy, Debug, Serialize, Deserialize, PartialEq, Eq, Hash)]
enum Kind {
    Sphere,
    ShiftedSphere,
    Linear,
    AbsSum,
    Plateau,
}

#[derive(Clone, Debug, Serialize, Deserialize, PartialEq)]
struct Penalty {
    weight: f64,
    limit: f64,
}

#[derive(Clone, Debug, Serialize, Deserialize, PartialEq)]
struct ProbSpec {
    kind: Kind,
    lower: Vec<f64>,
    upper: Vec<f64>,
    /// shift (ShiftedSphere) or coefficients (Linear), one per dimension
    coef: Vec<f64>,
    penalty: Option<Penalty>,
}

#[derive(Clone, Debug, Serialize, Deserialize, PartialEq)]
struct CaseSpec {
    problem: ProbSpec,
    population: usize,
    iterations: usize,
    seeds: Vec<u64>,
}

#[derive(Clone, Debug, Serialize, Deserialize, PartialEq)]
struct Replay {
    /// adapter name; None = all adapters
    solver: Option<String>,
    case: CaseSpec,
}

struct GenProblem {
    spec: ProbSpec,
    lower: Array1<f64>,
    upper: Array1<f64>,
}

impl GenProblem {
    fn new(spec: &ProbSpec) -> Self {
        GenProblem { spec: spec.clone(), lower: Array1::from(spec.lower.clone()), upper: Array1::from(spec.upper.clone()) }
    }
    fn base(&self, x: &Array1<f64>) -> f64 {
        let c = &self.spec.coef;
        let mut s = 0.0;
        for i in 0..x.len() {
            let v = x[i];
            s += match self.spec.kind {
                Kind::Sphere => v * v,
                Kind::ShiftedSphere => (v - c[i]) * (v - c[i]),
                Kind::Linear => c[i] * v,
                Kind::AbsSum => v.abs(),
                Kind::Plateau => v.floor(),
            };
        }
        s
    }
    fn excess(&self, x: &Array1<f64>) -> f64 {
        match &self.spec.penalty {
            None => 0.0,
            Some(p) => {
                let mut sum = 0.0;
                for i in 0..x.len() {
                    sum += x[i];
                }
                let e = sum - p.limit;
                if e > 0.0 {
                    p.weight * e * e
                } else {
                    0.0
                }
            }
        }
    }
}

impl Problem for GenProblem {
    fn objective(&self, x: &Array1<f64>) -> f64 {
        self.base(x)
    }
    fn penalty(&self, x: &Array1<f64>) -> f64 {
        self.excess(x)
    }
    fn dim(&self) -> usize {
        self.spec.lower.len()
    }
    fn bounds(&self) -> (Array1<f64>, Array1<f64>) {
        (self.lower.clone(), self.upper.clone())
    }
}

impl MultiObjectiveProblem for GenProblem {
    fn objectives(&self, x: &Array1<f64>) -> Vec<f64> {
        let mut f2 = 0.0;
        let mut f3 = 0.0;
        for i in 0..x.len() {
            f2 += (x[i] - self.upper[i]) * (x[i] - self.upper[i]);
            f3 += (x[i] - self.lower[i]).abs();
        }
        if x.len() % 2 == 1 {
            vec![self.base(x), f2, f3]
        } else {
            vec![self.base(x), f2]
        }
    }
    fn penalties(&self, x: &Array1<f64>) -> Vec<f64> {
        match &self.spec.penalty {
            None => vec![],
            Some(_) => vec![self.excess(x), 0.0],
        }
    }
    fn dim(&self) -> usize {
        self.spec.lower.len()
    }
    fn bounds(&self) -> (Array1<f64>, Array1<f64>) {
        (self.lower.clone(), self.upper.clone())
    }
    fn num_objectives(&self) -> usize {
        if self.spec.lower.len() % 2 == 1 {
            3
        } else {
            2
        }
    }
}

fn degenerate_dims(p: &ProbSpec) -> usize {
    (0..p.lower.len()).filter(|i| p.lower[*i] == p.upper[*i]).count()
}

fn asymmetric(p: &ProbSpec) -> bool {
    (0..p.lower.len()).any(|i| p.lower[i] != -p.upper[i])
}

fn well_formed(c: &CaseSpec) -> Result<(), String> {
    let p = &c.problem;
    let d = p.lower.len();
    if d == 0 || p.upper.len() != d || p.coef.len() != d {
        return Err("dimension mismatch".into());
    }
    for i in 0..d {
        if !(p.lower[i].is_finite() && p.upper[i].is_finite() && p.coef[i].is_finite()) || p.lower[i] > p.upper[i] {
            return Err(format!("bounds of dimension {i} are not a finite box"));
        }
    }
    // preconditions read off the solvers: DE and MO-Rao+DE draw three partners distinct from the
    // target (population >= 4, otherwise they spin forever); TLBO-family learners need >= 2
    if c.population < 4 {
        return Err("population < 4 is outside the domain (DE needs three distinct partners)".into());
    }
    if c.iterations < 1 {
        return Err("iterations < 1 is outside the domain".into());
    }
    if c.seeds.is_empty() {
        return Err("no seed".into());
    }
    Ok(())
}

// ---------------------------------------------------------------------------------------
// adapter table

type SoRun = fn(&GenProblem, SolverConfig, u64) -> OptimizationResult;
type MoRun = fn(&GenProblem, SolverConfig, u64) -> MultiObjectiveResult;

enum Run {
    So(SoRun),
    Mo(MoRun),
}

struct Adapter {
    name: &'static str,
    run: Run,
}

macro_rules! so {
    ($name:literal, |$cfg:ident| $build:expr) => {
        Adapter { name: $name, run: Run::So(|p, $cfg, seed| $build.with_seed(seed).solve(p)) }
    };
}
macro_rules! mo {
    ($name:literal, |$cfg:ident| $build:expr) => {
        Adapter { name: $name, run: Run::Mo(|p, $cfg, seed| $build.with_seed(seed).solve(p)) }
    };
}

fn adapters() -> Vec<Adapter> {
    vec![
        so!("Jaya", |c| JayaSolver::new(c)),
        so!("Rao1", |c| RaoSolver::new(c, RaoVariant::Rao1)),
        so!("Rao2", |c| RaoSolver::new(c, RaoVariant::Rao2)),
        so!("Rao3", |c| RaoSolver::new(c, RaoVariant::Rao3)),
        so!("TLBO", |c| TLBOSolver::new(c)),
        so!("BMR", |c| BMRSolver::new(c)),
        so!("BWR", |c| BWRSolver::new(c)),
        so!("BMWR", |c| BMWRSolver::new(c)),
        so!("QOJaya", |c| QOJayaSolver::new(c)),
        so!("ITLBO", |c| ITLBOSolver::new(c)),
        so!("PSO", |c| PSOSolver::new(c)),
        so!("DE", |c| DESolver::new(c)),
        so!("GOTLBO", |c| GOTLBOSolver::new(c)),
        so!("Firefly", |c| FireflySolver::new(c)),
        so!("Cuckoo", |c| CuckooSolver::new(c)),
        so!("GWO", |c| GWOSolver::new(c)),
        so!("GA", |c| GASolver::new(c)),
        so!("SA", |c| SASolver::new(c)),
        so!("Bat", |c| BatSolver::new(c)),
        so!("ABC", |c| ABCSolver::new(c)),
        so!("GSA", |c| GSASolver::new(c)),
        so!("HS", |c| HSSolver::new(c)),
        so!("FPA", |c| FPASolver::new(c)),
        so!("SAMPJaya", |c| SAMPJayaSolver::new(c)),
        so!("EHRJaya", |c| EHRJayaSolver::new(c)),
        so!("QORao1", |c| QORaoSolver::new(c, RaoVariant::Rao1)),
        so!("QORao2", |c| QORaoSolver::new(c, RaoVariant::Rao2)),
        so!("QORao3", |c| QORaoSolver::new(c, RaoVariant::Rao3)),
        so!("SAPHR", |c| SAPHRSolver::new(c)),
        mo!("NSGA2", |c| NSGA2Solver::new(c)),
        mo!("MOTLBO", |c| MOTLBOSolver::new(c)),
        mo!("MOBMR", |c| MOBMWRSolver::new(c, MOBMWRVariant::MOBMR)),
        mo!("MOBWR", |c| MOBMWRSolver::new(c, MOBMWRVariant::MOBWR)),
        mo!("MOBMWR", |c| MOBMWRSolver::new(c, MOBMWRVariant::MOBMWR)),
        mo!("MORaoDE", |c| MORaoDESolver::new(c)),
    ]
}

// ---------------------------------------------------------------------------------------
// oracle

struct Pools {
    one: rayon::ThreadPool,
    eight: rayon::ThreadPool,
}

/// bit-exact fingerprint of a result (for the reproducibility comparison)
#[derive(PartialEq, Eq, Debug, Clone)]
struct Print {
    scalars: Vec<u64>,
    shape: Vec<usize>,
}

fn print_so(r: &OptimizationResult) -> Print {
    let mut scalars = vec![r.best_fitness.to_bits()];
    scalars.extend(r.best_variables.iter().map(|v| v.to_bits()));
    scalars.extend(r.history.iter().map(|v| v.to_bits()));
    Print { scalars, shape: vec![r.best_variables.len(), r.history.len()] }
}

fn print_mo(r: &MultiObjectiveResult) -> Print {
    let mut scalars = Vec::new();
    let mut shape = vec![r.pareto_front.len(), r.history.len()];
    for m in &r.pareto_front {
        shape.push(m.variables.len());
        shape.push(m.fitness.len());
        scalars.extend(m.variables.iter().map(|v| v.to_bits()));
        scalars.extend(m.fitness.iter().map(|v| v.to_bits()));
        scalars.push(m.constraint_violation.to_bits());
    }
    scalars.extend(r.history.iter().map(|v| v.to_bits()));
    Print { scalars, shape }
}

fn check_so(p: &GenProblem, r: &OptimizationResult) -> Result<(), String> {
    let d = p.spec.lower.len();
    if r.best_variables.len() != d {
        return Err(format!("best_variables has {} entries for a {d}-dimensional problem", r.best_variables.len()));
    }
    for i in 0..d {
        let v = r.best_variables[i];
        if !(v >= p.spec.lower[i] && v <= p.spec.upper[i]) {
            return Err(format!("best_variables[{i}] = {v:e} is outside [{:e}, {:e}]", p.spec.lower[i], p.spec.upper[i]));
        }
    }
    let f = Problem::fitness(p, &r.best_variables);
    if f.to_bits() != r.best_fitness.to_bits() {
        return Err(format!("best_fitness = {:e} but problem.fitness(best_variables) = {:e} (variables {:?})", r.best_fitness, f, r.best_variables.to_vec()));
    }
    for k in 1..r.history.len() {
        if !(r.history[k] <= r.history[k - 1]) {
            return Err(format!("history gets worse at iteration {k}: {:e} -> {:e} (history {:?})", r.history[k - 1], r.history[k], r.history));
        }
    }
    if let Some(last) = r.history.last() {
        if !(r.best_fitness <= *last) {
            return Err(format!("best_fitness {:e} is worse than the last history entry {:e}", r.best_fitness, last));
        }
    }
    Ok(())
}

fn check_mo(p: &GenProblem, r: &MultiObjectiveResult) -> Result<(), String> {
    let d = p.spec.lower.len();
    for (k, m) in r.pareto_front.iter().enumerate() {
        if m.variables.len() != d {
            return Err(format!("front member {k} has {} variables for a {d}-dimensional problem", m.variables.len()));
        }
        for i in 0..d {
            let v = m.variables[i];
            if !(v >= p.spec.lower[i] && v <= p.spec.upper[i]) {
                return Err(format!("front member {k}: variable {i} = {v:e} is outside [{:e}, {:e}]", p.spec.lower[i], p.spec.upper[i]));
            }
        }
        let f = p.objectives(&m.variables);
        if f.len() != m.fitness.len() || f.iter().zip(m.fitness.iter()).any(|(a, b)| a.to_bits() != b.to_bits()) {
            return Err(format!("front member {k}: fitness {:?} but objectives(variables) = {:?}", m.fitness, f));
        }
        let viol: f64 = p.penalties(&m.variables).iter().sum();
        if viol.to_bits() != m.constraint_violation.to_bits() {
            return Err(format!("front member {k}: constraint_violation {:e} but sum(penalties(variables)) = {:e}", m.constraint_violation, viol));
        }
    }
    for (i, a) in r.pareto_front.iter().enumerate() {
        for (j, b) in r.pareto_front.iter().enumerate() {
            if i != j && constrained_dominates(&a.fitness, a.constraint_violation, &b.fitness, b.constraint_violation) {
                return Err(format!("front member {i} (fitness {:?}, violation {:e}) dominates front member {j} (fitness {:?}, violation {:e})", a.fitness, a.constraint_violation, b.fitness, b.constraint_violation));
            }
        }
    }
    Ok(())
}

#[derive(Default)]
struct Facts {
    kf: Option<&'static str>,
    improved: bool,
    seed_sensitive: bool,
    empty_front: bool,
}

/// One adapter on one case: all seeds, both pools. Err = violation.
fn run_adapter(a: &Adapter, case: &CaseSpec, pools: &Pools, kf: &Known) -> Result<Facts, String> {
    let p = GenProblem::new(&case.problem);
    let cfg = || SolverConfig { population_size: case.population, max_iterations: case.iterations };
    let mut facts = Facts::default();
    let mut prints: Vec<Print> = Vec::new();
    for (si, seed) in case.seeds.iter().enumerate() {
        // (pool, label): the first seed is also repeated on the same pool
        let mut plan: Vec<(&rayon::ThreadPool, &str)> = vec![(&pools.one, "1 thread"), (&pools.eight, "8 threads")];
        if si == 0 {
            plan.push((&pools.one, "1 thread, second run"));
        }
        let mut first: Option<Print> = None;
        for (pool, label) in plan {
            let outcome: Result<Print, String> = match &a.run {
                Run::So(f) => match pool.install(|| catch_all(|| f(&p, cfg(), *seed))) {
                    Err(m) => Err(m),
                    Ok(r) => {
                        check_so(&p, &r).map_err(|m| format!("{}: seed {seed}, {label}: {m}", a.name))?;
                        if r.history.first().map(|h| r.best_fitness < *h).unwrap_or(false) {
                            facts.improved = true;
                        }
                        Ok(print_so(&r))
                    }
                },
                Run::Mo(f) => match pool.install(|| catch_all(|| f(&p, cfg(), *seed))) {
                    Err(m) => Err(m),
                    Ok(r) => {
                        check_mo(&p, &r).map_err(|m| format!("{}: seed {seed}, {label}: {m}", a.name))?;
                        if r.pareto_front.is_empty() {
                            facts.empty_front = true;
                        }
                        Ok(print_mo(&r))
                    }
                },
            };
            match outcome {
                Err(msg) => {
                    // a panic is a violation unless an enabled known finding explains exactly it
                    let degenerate = degenerate_dims(&case.problem) > 0;
                    if msg.starts_with(EMPTY_RANGE) && degenerate && kf.active(KF_DEGENERATE) {
                        facts.kf = Some(KF_DEGENERATE);
                        return Ok(facts);
                    }
                    if msg.starts_with(EMPTY_RANGE) && !degenerate && a.name == "QOJaya" && kf.active(KF_QOJAYA) {
                        facts.kf = Some(KF_QOJAYA);
                        return Ok(facts);
                    }
                    return Err(format!("{}: seed {seed}, {label}: solver panicked: {msg}", a.name));
                }
                Ok(pr) => match &first {
                    None => first = Some(pr),
                    Some(f0) => {
                        if *f0 != pr {
                            let what = if f0.shape != pr.shape {
                                format!("shapes {:?} vs {:?}", f0.shape, pr.shape)
                            } else {
                                let k = f0.scalars.iter().zip(pr.scalars.iter()).position(|(x, y)| x != y).unwrap_or(0);
                                format!("first differing scalar #{k}: {:e} vs {:e}", f64::from_bits(f0.scalars[k]), f64::from_bits(pr.scalars[k]))
                            };
                            return Err(format!("{}: seed {seed}: result on 1 thread differs from the run on {label} ({what})", a.name));
                        }
                    }
                },
            }
        }
        if let Some(f) = first {
            prints.push(f);
        }
    }
    facts.seed_sensitive = prints.windows(2).any(|w| w[0] != w[1]);
    Ok(facts)
}

// ---------------------------------------------------------------------------------------
// generator

const LOWERS: &[f64] = &[0.0, -1.0, 1.0, -5.0, 0.5, -0.25, 3.0, 100.0, -100.0, 1e3, -1e3, 1e-3];
const WIDTHS: &[f64] = &[1.0, 2.0, 10.0, 0.5, 1e-3, 1e-6, 1e-9, 1e3, 1e6, 5.12];
const COEFS: &[f64] = &[1.0, -1.0, 0.5, 2.0, -3.0, 0.0, 10.0, 0.25];

#[derive(Clone, Debug)]
enum DimRaw {
    /// [-w/2·k, w/2·k] symmetric about 0
    Symmetric(usize),
    /// lower from LOWERS, width from WIDTHS
    Offset(usize, usize),
    /// lower == upper
    Degenerate(usize),
}

fn dim_strategy(degenerate_weight: u32) -> BoxedStrategy<(DimRaw, usize)> {
    let d = prop_oneof![
        2 => (0..WIDTHS.len()).prop_map(DimRaw::Symmetric),
        6 => (0..LOWERS.len(), 0..WIDTHS.len()).prop_map(|(l, w)| DimRaw::Offset(l, w)),
        degenerate_weight => (0..LOWERS.len()).prop_map(DimRaw::Degenerate),
    ];
    (d, 0..COEFS.len()).boxed()
}

fn case_strategy(n_seeds: usize) -> BoxedStrategy<CaseSpec> {
    let kind = prop_oneof![Just(Kind::Sphere), Just(Kind::ShiftedSphere), Just(Kind::Linear), Just(Kind::AbsSum), Just(Kind::Plateau)];
    // a degenerate dimension makes every solver panic today (KF-C34-1), so most cases have none:
    // ~75 % proper boxes, ~15 % with some degenerate dimensions, ~10 % degenerate in every dimension
    let dims = prop_oneof![
        15 => proptest::collection::vec(dim_strategy(0), 1..=6),
        3 => proptest::collection::vec(dim_strategy(4), 1..=6),
        2 => proptest::collection::vec((0..LOWERS.len()).prop_map(DimRaw::Degenerate).prop_flat_map(|d| (Just(d), 0..COEFS.len())), 1..=3),
    ];
    let penalty = prop_oneof![3 => Just(None), 1 => (prop_oneof![Just(1.0f64), Just(1e3f64)], 0u8..3).prop_map(Some)];
    let seed = prop_oneof![2 => Just(0u64), 1 => Just(1u64), 1 => Just(u64::MAX), 1 => Just(12345u64), 6 => any::<u64>()];
    (kind, dims, penalty, 4usize..=20, 1usize..=15, proptest::collection::vec(seed, n_seeds))
        .prop_map(|(kind, dims, penalty, population, iterations, seeds)| {
            let mut lower = Vec::new();
            let mut upper = Vec::new();
            let mut coef = Vec::new();
            for (d, c) in dims {
                let (l, u) = match d {
                    DimRaw::Symmetric(w) => (-WIDTHS[w] / 2.0, WIDTHS[w] / 2.0),
                    DimRaw::Offset(l, w) => (LOWERS[l], LOWERS[l] + WIDTHS[w]),
                    DimRaw::Degenerate(l) => (LOWERS[l], LOWERS[l]),
                };
                lower.push(l);
                upper.push(u);
                coef.push(COEFS[c]);
            }
            // penalty limit placed relative to the box so that part of it is infeasible
            let penalty = penalty.map(|(weight, pos)| {
                let lo: f64 = lower.iter().sum();
                let hi: f64 = upper.iter().sum();
                let limit = match pos {
                    0 => (lo + hi) / 2.0,
                    1 => lo, // everything except the lower corner is penalised
                    _ => lo - 1.0, // the whole box is penalised
                };
                Penalty { weight, limit }
            });
            CaseSpec { problem: ProbSpec { kind, lower, upper, coef, penalty }, population, iterations, seeds }
        })
        .boxed()
}

fn classes(c: &CaseSpec) -> Vec<String> {
    let p = &c.problem;
    let d = p.lower.len();
    let deg = degenerate_dims(p);
    let mut out = vec![format!("kind_{:?}", p.kind), format!("dim_{d}")];
    if deg == d {
        out.push("box_degenerate_all".into());
    } else if deg > 0 {
        out.push("box_degenerate_some".into());
    }
    if asymmetric(p) {
        out.push("box_asymmetric".into());
    } else {
        out.push("box_symmetric_only".into());
    }
    if (0..d).any(|i| p.lower[i] > 0.0 || p.upper[i] < 0.0) {
        out.push("box_excludes_zero".into());
    }
    if (0..d).any(|i| p.upper[i] - p.lower[i] > 0.0 && p.upper[i] - p.lower[i] <= 1e-6) {
        out.push("box_width_le_1e-6".into());
    }
    if (0..d).any(|i| p.upper[i] - p.lower[i] >= 1e3) {
        out.push("box_width_ge_1e3".into());
    }
    if p.penalty.is_some() {
        out.push("penalty".into());
    }
    out
}

fn nontrivial(c: &CaseSpec) -> bool {
    degenerate_dims(&c.problem) > 0 || asymmetric(&c.problem)
}

// ---------------------------------------------------------------------------------------

fn main() {
    let args = parse_args();
    install_panic_hook();
    start_watchdog(args.tier.pick(900, 3600));
    match args.prop.as_str() {
        "C34" => c34(&args),
        p => {
            eprintln!("vc_opt does not serve {p}");
            std::process::exit(2)
        }
    }
}

/// run the selected adapters on a case; Err((adapter, message)) on the first violation
fn run_case(ads: &[Adapter], only: Option<&str>, case: &CaseSpec, pools: &Pools, kf: &Known, ev: &mut Evidence) -> Result<(), (String, String)> {
    let cls = classes(case);
    let nt = nontrivial(case);
    let case_key = serde_json::to_string(case).unwrap();
    for a in ads {
        if let Some(o) = only {
            if o != a.name {
                continue;
            }
        }
        ev.case();
        for c in &cls {
            ev.class(c);
        }
        match run_adapter(a, case, pools, kf) {
            Ok(f) => {
                if let Some(id) = f.kf {
                    ev.kf_hit(id);
                    ev.class("known_finding_panic");
                } else {
                    ev.class("completed");
                    if f.improved {
                        ev.class("history_improved");
                    }
                    if f.seed_sensitive {
                        ev.class("seed_sensitive");
                    }
                    if f.empty_front {
                        ev.class("empty_front");
                    }
                }
                if nt {
                    ev.nontrivial(&(a.name, &case_key));
                    ev.class("nontrivial");
                }
            }
            Err(m) => return Err((a.name.to_string(), m)),
        }
    }
    Ok(())
}

fn enable_known(kf: &Known, ev: &mut Evidence, ads: &[Adapter], pools: &Pools, out: &RealOut) {
    let mut results = Vec::new();
    for id in [KF_DEGENERATE, KF_QOJAYA] {
        if !kf.listed(id) {
            continue;
        }
        // strict: no matcher is active while witnesses are judged
        let still = match witness_case(kf, id).and_then(|v| serde_json::from_value::<Replay>(v).ok()) {
            Some(rp) if well_formed(&rp.case).is_ok() => ads.iter().filter(|a| rp.solver.as_deref().map(|s| s == a.name).unwrap_or(true)).any(|a| run_adapter(a, &rp.case, pools, kf).is_err()),
            _ => false,
        };
        results.push((id, still));
    }
    for (id, still) in results {
        out.with(|| kf.witness_result(ev, id, still));
    }
}

fn c34(args: &Args) {
    let mut ev = Evidence::new(
        args,
        "exploration",
        "every solver adapter (29 single-objective over 25 solver types incl. the 3 Rao / QO-Rao variants, 6 multi-objective over 4 types) x generated box problems (sphere, shifted sphere, linear, |x| sum, plateau; 1-6 dimensions; symmetric, offset, zero-excluding and degenerate dimensions; widths 1e-9..1e6; optional penalty) x population 4-20, iterations 1-15 x seeds x rayon pools of 1 and 8 threads; oracle: bounds, bit-equal fitness, monotone history, bit-identical results per seed across runs and pools; fronts in bounds, consistent, mutually non-dominated. One evaluation = one (adapter, problem+configuration) pair (all its seeds and pools). Non-trivial = the problem has an asymmetric or degenerate dimension; distinct = distinct (adapter, case) pairs.",
    );
    ev.assume("population >= 4 (DE and MO-Rao+DE pick three partners distinct from the target and would spin forever below that; TLBO-family learner phases need 2), iterations >= 1 (GWO reports fitness = +inf for 0 iterations), finite boxes with lower <= upper");
    ev.assume("every solver type takes a seed through with_seed(u64) and documents it as 'Seed for reproducible runs', so reproducibility is asserted for all of them (tests/test_reproducibility.rs covers 24 of the 25 single-objective types and none of the multi-objective ones; thread-count independence is tested there for DE only)");
    ev.assume("multi-objective history entries (first objective of the first member / hypervolume with a moving reference point) are not a best-fitness trajectory: they are compared for reproducibility only, not for monotonicity");
    let out = RealOut { saved: redirect_stdout_to_null() };
    let kf = Known::load(args);
    let ads = adapters();
    let pools = Pools { one: rayon::ThreadPoolBuilder::new().num_threads(1).build().unwrap(), eight: rayon::ThreadPoolBuilder::new().num_threads(8).build().unwrap() };
    ev.set("adapters", json!(ads.iter().map(|a| a.name).collect::<Vec<_>>()));

    if let Some(p) = &args.replay {
        let rp: Replay = serde_json::from_value(load_replay(p)).expect("replay case");
        if let Err(e) = well_formed(&rp.case) {
            out.restore();
            eprintln!("replay case is outside the domain: {e}");
            std::process::exit(2);
        }
        enable_known(&kf, &mut ev, &ads, &pools, &out);
        match run_case(&ads, rp.solver.as_deref(), &rp.case, &pools, &kf, &mut ev) {
            Ok(()) => out.with(|| println!("replay: property held{}", if ev.kf_hits.is_empty() { "" } else { " (explained by a listed known finding)" })),
            Err((_, m)) => {
                out.with(|| report_violation(&mut ev, &json!(rp), &m));
            }
        }
        ev.nontrivial(&"replay");
        ev.nontrivial(&serde_json::to_string(&rp).unwrap());
        ev.sample(json!(rp));
        out.restore();
        finish(&ev);
    }

    enable_known(&kf, &mut ev, &ads, &pools, &out);

    for (path, v) in corpus_cases("C34") {
        let rp: Replay = serde_json::from_value(v).expect("corpus case");
        ev.class("corpus");
        if let Err((_, m)) = run_case(&ads, rp.solver.as_deref(), &rp.case, &pools, &kf, &mut ev) {
            out.with(|| report_violation(&mut ev, &json!(rp), &format!("{m} (corpus {})", path.display())));
            out.restore();
            finish(&ev);
        }
    }

    let n_cases = args.tier.pick(600u32, 8000u32);
    let n_seeds = args.tier.pick(3usize, 5usize);
    let strat = case_strategy(n_seeds);
    let evc = std::cell::RefCell::new(&mut ev);
    // once a violation is found, shrinking re-runs only the adapter that failed
    let culprit: std::cell::RefCell<Option<String>> = std::cell::RefCell::new(None);
    let res = search(args.seed, n_cases, &strat, |case| {
        let mut e = evc.borrow_mut();
        let only = culprit.borrow().clone();
        if e.want_sample() && only.is_none() && nontrivial(case) {
            e.sample(json!(case));
        }
        match run_case(&ads, only.as_deref(), case, &pools, &kf, &mut e) {
            Ok(()) => Ok(()),
            Err((name, m)) => {
                e.frozen = true;
                if culprit.borrow().is_none() {
                    *culprit.borrow_mut() = Some(name);
                }
                Err(m)
            }
        }
    });
    drop(evc);
    if let Some((case, msg)) = res {
        let name = culprit.borrow().clone();
        let mut dummy = Evidence::new(args, "exploration", "");
        dummy.frozen = true;
        let mut fails = |c: &CaseSpec| well_formed(c).is_ok() && run_case(&ads, name.as_deref(), c, &pools, &kf, &mut dummy).is_err();
        let best = shrink_case(case, &mut fails);
        let msg2 = run_case(&ads, name.as_deref(), &best, &pools, &kf, &mut dummy).err().map(|e| e.1).unwrap_or(msg);
        let rp = Replay { solver: name, case: best };
        out.with(|| report_violation(&mut ev, &json!(rp), &msg2));
    }
    out.restore();
    finish(&ev);
}

/// greedy model-level shrinking after proptest's own: fewer dimensions, smaller configuration,
/// one seed, plainer objective and bounds - each step kept only while the failure persists.
fn shrink_case(mut best: CaseSpec, fails: &mut dyn FnMut(&CaseSpec) -> bool) -> CaseSpec {
    loop {
        let mut cands: Vec<CaseSpec> = Vec::new();
        let d = best.problem.lower.len();
        for i in 0..d {
            if d > 1 {
                let mut c = best.clone();
                c.problem.lower.remove(i);
                c.problem.upper.remove(i);
                c.problem.coef.remove(i);
                cands.push(c);
            }
        }
        for s in 0..best.seeds.len() {
            if best.seeds.len() > 1 {
                let mut c = best.clone();
                c.seeds.remove(s);
                cands.push(c);
            }
        }
        if best.seeds != vec![0] {
            let mut c = best.clone();
            c.seeds = vec![0];
            cands.push(c);
        }
        if best.problem.penalty.is_some() {
            let mut c = best.clone();
            c.problem.penalty = None;
            cands.push(c);
        }
        if best.problem.kind != Kind::Sphere {
            let mut c = best.clone();
            c.problem.kind = Kind::Sphere;
            cands.push(c);
        }
        if best.population > 4 {
            let mut c = best.clone();
            c.population = 4;
            cands.push(c);
            let mut c = best.clone();
            c.population -= 1;
            cands.push(c);
        }
        if best.iterations > 1 {
            let mut c = best.clone();
            c.iterations = 1;
            cands.push(c);
            let mut c = best.clone();
            c.iterations -= 1;
            cands.push(c);
        }
        for i in 0..d {
            let (l, u) = (best.problem.lower[i], best.problem.upper[i]);
            let plain: &[(f64, f64)] = if l == u { &[(0.0, 0.0), (1.0, 1.0)] } else { &[(-1.0, 1.0), (0.0, 1.0), (1.0, 2.0)] };
            for (nl, nu) in plain {
                if (l, u) != (*nl, *nu) && !plain.iter().take_while(|x| *x != &(*nl, *nu)).any(|x| *x == (l, u)) {
                    let mut c = best.clone();
                    c.problem.lower[i] = *nl;
                    c.problem.upper[i] = *nu;
                    cands.push(c);
                }
            }
            if best.problem.coef[i] != 1.0 {
                let mut c = best.clone();
                c.problem.coef[i] = 1.0;
                cands.push(c);
            }
        }
        let mut changed = false;
        for c in cands {
            if fails(&c) {
                best = c;
                changed = true;
                break;
            }
        }
        if !changed {
            return best;
        }
    }
}
