//! Canonical graph dump (DESIGN §3.3): reads a GraphStore only through public readers.

use crate::values::canon;
use samyama::graph::{EdgeId, GraphStore, NodeId, PropertyValue};
use std::collections::{BTreeMap, BTreeSet};

#[derive(Clone, Debug, PartialEq, Eq, PartialOrd, Ord)]
pub struct DNode {
    pub key: String,
    pub labels: Vec<String>,
    /// property name -> canonical typed value (null-valued properties omitted when `drop_nulls`)
    pub props: BTreeMap<String, String>,
}

#[derive(Clone, Debug, PartialEq, Eq, PartialOrd, Ord)]
pub struct DEdge {
    pub key: String,
    pub src: String,
    pub dst: String,
    pub ty: String,
    pub props: BTreeMap<String, String>,
}

#[derive(Clone, Debug, PartialEq, Eq, Default)]
pub struct Dump {
    pub nodes: Vec<DNode>,
    pub edges: Vec<DEdge>,
}

impl Dump {
    pub fn render(&self) -> String {
        let mut s = String::new();
        for n in &self.nodes {
            s.push_str(&format!("N {} :{} {:?}\n", n.key, n.labels.join(":"), n.props));
        }
        for e in &self.edges {
            s.push_str(&format!("E {} {}-[{}]->{} {:?}\n", e.key, e.src, e.ty, e.dst, e.props));
        }
        s
    }
    pub fn diff(&self, other: &Dump) -> String {
        let a: BTreeSet<String> = self.render().lines().map(|l| l.to_string()).collect();
        let b: BTreeSet<String> = other.render().lines().map(|l| l.to_string()).collect();
        let mut s = String::new();
        for l in a.difference(&b) {
            s.push_str(&format!("- {l}\n"));
        }
        for l in b.difference(&a) {
            s.push_str(&format!("+ {l}\n"));
        }
        if s.is_empty() && self != other {
            s.push_str("(multiset difference: same lines, different multiplicities)\n");
            s.push_str(&format!("left: {} nodes {} edges; right: {} nodes {} edges\n", self.nodes.len(), self.edges.len(), other.nodes.len(), other.edges.len()));
        }
        s
    }
}

fn props_of(m: impl IntoIterator<Item = (String, PropertyValue)>, drop_nulls: bool) -> BTreeMap<String, String> {
    let mut out = BTreeMap::new();
    for (k, v) in m {
        if drop_nulls && v.is_null() {
            continue;
        }
        out.insert(k, canon(&v));
    }
    out
}

/// live node ids, each once (all_nodes returns every stored version)
pub fn live_node_ids(store: &GraphStore) -> Vec<NodeId> {
    let mut seen = BTreeSet::new();
    for n in store.all_nodes() {
        if store.get_node(n.id).is_some() {
            seen.insert(n.id.as_u64());
        }
    }
    seen.into_iter().map(NodeId::new).collect()
}

/// Dump keyed by internal ids (before/after comparisons on one store).
pub fn dump_with_ids(store: &GraphStore) -> Dump {
    let mut d = Dump::default();
    for id in live_node_ids(store) {
        let n = store.get_node(id).unwrap();
        let mut labels: Vec<String> = n.labels.iter().map(|l| l.as_str().to_string()).collect();
        labels.sort();
        d.nodes.push(DNode { key: format!("n{}", id.as_u64()), labels, props: props_of(store.node_properties_full(id), false) });
    }
    for e in store.all_edges() {
        d.edges.push(DEdge {
            key: format!("e{}", e.id.as_u64()),
            src: format!("n{}", e.source.as_u64()),
            dst: format!("n{}", e.target.as_u64()),
            ty: e.edge_type.as_str().to_string(),
            props: edge_props(store, e.id, &e.properties, false),
        });
    }
    d.nodes.sort();
    d.edges.sort();
    d
}

fn edge_props(_store: &GraphStore, _id: EdgeId, props: &samyama::graph::PropertyMap, drop_nulls: bool) -> BTreeMap<String, String> {
    props_of(props.iter().map(|(k, v)| (k.clone(), v.clone())), drop_nulls)
}

/// Id-free dump keyed by a unique property (`uid` on nodes, `rid` on relationships when
/// present; relationships without `rid` are keyed by their (src, type, dst, props) so the
/// comparison is a multiset comparison).
pub fn dump_by_uid(store: &GraphStore, uid: &str, rid: &str, drop_nulls: bool) -> Dump {
    let mut d = Dump::default();
    let mut key_of: BTreeMap<u64, String> = BTreeMap::new();
    for id in live_node_ids(store) {
        let n = store.get_node(id).unwrap();
        let props = store.node_properties_full(id);
        let key = match props.get(uid) {
            Some(v) if !v.is_null() => format!("u:{}", canon(v)),
            _ => format!("anon:{:?}:{:?}", {
                let mut l: Vec<&str> = n.labels.iter().map(|l| l.as_str()).collect();
                l.sort();
                l
            }, props_of(props.clone(), drop_nulls)),
        };
        key_of.insert(id.as_u64(), key.clone());
        let mut labels: Vec<String> = n.labels.iter().map(|l| l.as_str().to_string()).collect();
        labels.sort();
        d.nodes.push(DNode { key, labels, props: props_of(props, drop_nulls) });
    }
    for e in store.all_edges() {
        let props = edge_props(store, e.id, &e.properties, drop_nulls);
        let src = key_of.get(&e.source.as_u64()).cloned().unwrap_or_else(|| format!("MISSING-n{}", e.source.as_u64()));
        let dst = key_of.get(&e.target.as_u64()).cloned().unwrap_or_else(|| format!("MISSING-n{}", e.target.as_u64()));
        let key = match e.properties.get(rid) {
            Some(v) if !v.is_null() => format!("r:{}", canon(v)),
            _ => String::new(),
        };
        d.edges.push(DEdge { key, src, dst, ty: e.edge_type.as_str().to_string(), props });
    }
    d.nodes.sort();
    d.edges.sort();
    d
}

/// schema-level state that must not change on failed / read-only statements
pub fn schema_dump(store: &GraphStore) -> Vec<String> {
    let mut out = Vec::new();
    for (l, p) in store.property_index.list_indexes() {
        out.push(format!("index:{}:{}", l.as_str(), p));
    }
    for (l, p) in store.property_index.list_constraints() {
        out.push(format!("constraint:{}:{}", l.as_str(), p));
    }
    out.sort();
    out
}
