//! Shared components of the vcheck harness (DESIGN.md §2, §3).
//!
//! Everything a check needs that is not specific to one property: argument parsing,
//! evidence bookkeeping, the known-findings file, proptest driving with deterministic
//! seeds, violation/replay files, panic capture, the fork isolation runner and the
//! global watchdog.

pub mod dump;
pub mod forkrun;
pub mod values;

use proptest::strategy::{Strategy, ValueTree};
use proptest::test_runner::{Config, RngSeed, TestCaseError, TestError, TestRunner};
use serde_json::{json, Map, Value};
use std::cell::RefCell;
use std::collections::{BTreeMap, HashSet};
use std::hash::{Hash, Hasher};
use std::path::{Path, PathBuf};
use std::time::Instant;

pub const VERIF_ROOT: &str = "/verif";

#[derive(Clone, Copy, PartialEq, Eq, Debug)]
pub enum Tier {
    Quick,
    Thorough,
}

impl Tier {
    pub fn name(self) -> &'static str {
        match self {
            Tier::Quick => "quick",
            Tier::Thorough => "thorough",
        }
    }
    /// pick a count by tier
    pub fn pick<T>(self, quick: T, thorough: T) -> T {
        match self {
            Tier::Quick => quick,
            Tier::Thorough => thorough,
        }
    }
}

#[derive(Clone, Debug)]
pub struct Args {
    pub prop: String,
    pub tier: Tier,
    pub seed: u64,
    pub replay: Option<PathBuf>,
    /// strict replay: ignore known findings (used when re-validating witnesses)
    pub strict: bool,
}

pub fn parse_args() -> Args {
    let argv: Vec<String> = std::env::args().collect();
    if argv.len() < 2 {
        eprintln!("usage: {} <Cxx> [quick|thorough] [--replay FILE] [--strict]", argv[0]);
        std::process::exit(2);
    }
    let prop = argv[1].clone();
    let mut tier = match std::env::var("VERIF_TIER").ok().as_deref() {
        Some("thorough") => Tier::Thorough,
        _ => Tier::Quick,
    };
    let mut replay = None;
    let mut strict = false;
    let mut i = 2;
    while i < argv.len() {
        match argv[i].as_str() {
            "quick" => tier = Tier::Quick,
            "thorough" => tier = Tier::Thorough,
            "--replay" => {
                i += 1;
                replay = Some(PathBuf::from(&argv[i]));
            }
            "--strict" => strict = true,
            other => {
                eprintln!("unknown argument {other}");
                std::process::exit(2);
            }
        }
        i += 1;
    }
    let seed = std::env::var("VERIF_SEED")
        .ok()
        .and_then(|s| s.trim().parse::<i128>().ok())
        .map(|v| v as u64)
        .unwrap_or(20260921);
    Args { prop, tier, seed, replay, strict }
}

// ---------------------------------------------------------------------------------------
// hashing helpers (stable across processes: FNV-1a, not SipHash with random keys)

pub struct Fnv(pub u64);
impl Default for Fnv {
    fn default() -> Self {
        Fnv(0xcbf29ce484222325)
    }
}
impl Hasher for Fnv {
    fn finish(&self) -> u64 {
        self.0
    }
    fn write(&mut self, bytes: &[u8]) {
        for b in bytes {
            self.0 ^= *b as u64;
            self.0 = self.0.wrapping_mul(0x100000001b3);
        }
    }
}
pub fn fnv<T: Hash + ?Sized>(t: &T) -> u64 {
    let mut h = Fnv::default();
    t.hash(&mut h);
    h.finish()
}
pub fn fnv_str(s: &str) -> u64 {
    let mut h = Fnv::default();
    h.write(s.as_bytes());
    h.finish()
}

// ---------------------------------------------------------------------------------------
// Evidence

pub struct Evidence {
    pub property_id: String,
    pub tier: Tier,
    pub seed: u64,
    pub level: &'static str,
    pub rule: String,
    pub evaluations: u64,
    nontrivial: HashSet<u64>,
    pub samples: Vec<Value>,
    pub max_samples: usize,
    pub classes: BTreeMap<String, u64>,
    pub exhaustive: Option<bool>,
    pub kf_hits: BTreeMap<String, u64>,
    pub kf_reported: Vec<String>,
    pub refusals: u64,
    pub timeouts: u64,
    pub assumptions: Vec<String>,
    pub violations: u64,
    pub extra: Map<String, Value>,
    pub frozen: bool,
    start: Instant,
}

impl Evidence {
    pub fn new(args: &Args, level: &'static str, rule: &str) -> Self {
        Evidence {
            property_id: args.prop.clone(),
            tier: args.tier,
            seed: args.seed,
            level,
            rule: rule.to_string(),
            evaluations: 0,
            nontrivial: HashSet::new(),
            samples: Vec::new(),
            max_samples: 6,
            classes: BTreeMap::new(),
            exhaustive: None,
            kf_hits: BTreeMap::new(),
            kf_reported: Vec::new(),
            refusals: 0,
            timeouts: 0,
            assumptions: Vec::new(),
            violations: 0,
            extra: Map::new(),
            frozen: false,
            start: Instant::now(),
        }
    }
    /// one generated case executed
    pub fn case(&mut self) {
        if !self.frozen {
            self.evaluations += 1;
        }
    }
    pub fn cases(&mut self, n: u64) {
        if !self.frozen {
            self.evaluations += n;
        }
    }
    /// the case (identified by its canonical hash) is non-trivial by the property's rule
    pub fn nontrivial_hash(&mut self, h: u64) {
        if !self.frozen {
            self.nontrivial.insert(h);
        }
    }
    pub fn nontrivial<T: Hash + ?Sized>(&mut self, canonical: &T) {
        let h = fnv(canonical);
        self.nontrivial_hash(h);
    }
    pub fn nontrivial_count(&self) -> usize {
        self.nontrivial.len()
    }
    pub fn class(&mut self, name: &str) {
        if !self.frozen {
            *self.classes.entry(name.to_string()).or_insert(0) += 1;
        }
    }
    pub fn class_n(&mut self, name: &str, n: u64) {
        if !self.frozen {
            *self.classes.entry(name.to_string()).or_insert(0) += n;
        }
    }
    pub fn sample(&mut self, v: Value) {
        if !self.frozen && self.samples.len() < self.max_samples {
            self.samples.push(v);
        }
    }
    pub fn want_sample(&self) -> bool {
        !self.frozen && self.samples.len() < self.max_samples
    }
    pub fn kf_hit(&mut self, id: &str) {
        if !self.frozen {
            *self.kf_hits.entry(id.to_string()).or_insert(0) += 1;
        }
    }
    pub fn refusal(&mut self) {
        if !self.frozen {
            self.refusals += 1;
        }
    }
    pub fn assume(&mut self, s: &str) {
        self.assumptions.push(s.to_string());
    }
    pub fn set(&mut self, k: &str, v: Value) {
        self.extra.insert(k.to_string(), v);
    }
    pub fn write(&self) {
        let mut cov = Map::new();
        cov.insert("evaluations".into(), json!(self.evaluations));
        cov.insert("distinct_nontrivial".into(), json!(self.nontrivial.len()));
        cov.insert("rule".into(), json!(self.rule));
        cov.insert("samples".into(), Value::Array(self.samples.clone()));
        cov.insert("classes".into(), json!(self.classes));
        if let Some(e) = self.exhaustive {
            cov.insert("exhaustive".into(), json!(e));
        }
        cov.insert("known_finding_hits".into(), json!(self.kf_hits));
        cov.insert("known_findings_reported".into(), json!(self.kf_reported));
        cov.insert("refusals".into(), json!(self.refusals));
        cov.insert("timeouts".into(), json!(self.timeouts));
        for (k, v) in &self.extra {
            cov.insert(k.clone(), v.clone());
        }
        let doc = json!({
            "property_id": self.property_id,
            "tier": self.tier.name(),
            "seed": (self.seed & 0x7fff_ffff_ffff_ffff) as i64,
            "level": self.level,
            "coverage": Value::Object(cov),
            "assumptions": self.assumptions,
            "wall_s": self.start.elapsed().as_secs_f64(),
            "violations": self.violations,
        });
        let dir = Path::new(VERIF_ROOT).join("evidence");
        let _ = std::fs::create_dir_all(&dir);
        let path = dir.join(format!("{}.json", self.property_id));
        let tmp = dir.join(format!(".{}.json.tmp", self.property_id));
        std::fs::write(&tmp, serde_json::to_string_pretty(&doc).unwrap()).expect("write evidence");
        std::fs::rename(&tmp, &path).expect("rename evidence");
    }
}

// ---------------------------------------------------------------------------------------
// Known findings (DESIGN §5). The file is read-only at run time.

#[derive(Clone, Debug)]
pub struct KnownFinding {
    pub id: String,
    pub property: String,
    pub status: String,
    pub what: String,
    pub witness: Option<String>,
}

pub struct Known {
    pub entries: Vec<KnownFinding>,
    active: RefCell<HashSet<String>>,
    strict: bool,
}

impl Known {
    pub fn load(args: &Args) -> Known {
        let path = Path::new(VERIF_ROOT).join("known_findings.json");
        let mut entries = Vec::new();
        if let Ok(txt) = std::fs::read_to_string(&path) {
            let v: Value = serde_json::from_str(&txt).expect("known_findings.json parses");
            for e in v["findings"].as_array().cloned().unwrap_or_default() {
                let kf = KnownFinding {
                    id: e["id"].as_str().unwrap_or("").to_string(),
                    property: e["property"].as_str().unwrap_or("").to_string(),
                    status: e["status"].as_str().unwrap_or("").to_string(),
                    what: e["what"].as_str().unwrap_or("").to_string(),
                    witness: e["witness"].as_str().map(|s| s.to_string()),
                };
                if kf.property == args.prop {
                    entries.push(kf);
                }
            }
        }
        Known { entries, active: RefCell::new(HashSet::new()), strict: args.strict }
    }
    /// Is there an *open* entry with this id for this property?
    pub fn listed(&self, id: &str) -> bool {
        !self.strict && self.entries.iter().any(|e| e.id == id && e.status == "open")
    }
    /// Called by a check after replaying the witness of finding `id`:
    /// `still_fails` says whether the real code still shows the defect. Prints the
    /// KNOWN-FINDING line and turns the matcher on only when listed and still failing.
    pub fn witness_result(&self, ev: &mut Evidence, id: &str, still_fails: bool) -> bool {
        if !still_fails {
            return false;
        }
        if let Some(e) = self.entries.iter().find(|e| e.id == id && e.status == "open") {
            if self.strict {
                return false;
            }
            println!("KNOWN-FINDING: property={} {} {}", e.property, e.id, e.what);
            ev.kf_reported.push(e.id.clone());
            self.active.borrow_mut().insert(id.to_string());
            true
        } else {
            false
        }
    }
    /// matcher for finding `id` enabled (listed open + witness still fails)?
    pub fn active(&self, id: &str) -> bool {
        self.active.borrow().contains(id)
    }
}

// ---------------------------------------------------------------------------------------
// Violations and replay files

pub fn write_replay(prop: &str, case: &Value, message: &str) -> PathBuf {
    let dir = Path::new(VERIF_ROOT).join("replays");
    let _ = std::fs::create_dir_all(&dir);
    let body = json!({"property": prop, "message": message, "case": case});
    let txt = serde_json::to_string_pretty(&body).unwrap();
    let h = fnv_str(&serde_json::to_string(case).unwrap());
    let path = dir.join(format!("{}-{:016x}.json", prop, h));
    std::fs::write(&path, txt).expect("write replay");
    path
}

/// Print the VIOLATION line (stdout) and remember it in the evidence.
pub fn report_violation(ev: &mut Evidence, case: &Value, message: &str) -> PathBuf {
    let p = write_replay(&ev.property_id, case, message);
    ev.frozen = false;
    ev.violations += 1;
    // the violating case is always part of the evidence (a run that fails early has few samples)
    if ev.samples.len() < ev.max_samples + 1 {
        ev.samples.push(json!({"violating_case": case, "message": truncate(message, 600)}));
    }
    if ev.evaluations == 0 {
        ev.evaluations = 1;
    }
    println!("VIOLATION property={} replay={}", ev.property_id, p.display());
    eprintln!("  detail: {}", truncate(message, 2000));
    p
}

pub fn load_replay(path: &Path) -> Value {
    let txt = std::fs::read_to_string(path).unwrap_or_else(|e| {
        eprintln!("cannot read replay {}: {e}", path.display());
        std::process::exit(2)
    });
    let v: Value = serde_json::from_str(&txt).unwrap_or_else(|e| {
        eprintln!("cannot parse replay {}: {e}", path.display());
        std::process::exit(2)
    });
    if v.get("case").is_some() {
        v["case"].clone()
    } else {
        v
    }
}

/// committed regression inputs for a property: corpus/<Cxx>/*.json (sorted)
pub fn corpus_cases(prop: &str) -> Vec<(PathBuf, Value)> {
    let dir = Path::new(VERIF_ROOT).join("corpus").join(prop);
    let mut out = Vec::new();
    if let Ok(rd) = std::fs::read_dir(&dir) {
        let mut paths: Vec<PathBuf> = rd.filter_map(|e| e.ok().map(|e| e.path())).filter(|p| p.extension().map(|e| e == "json").unwrap_or(false)).collect();
        paths.sort();
        for p in paths {
            let v = load_replay(&p);
            out.push((p, v));
        }
    }
    out
}

pub fn witness_case(kf: &Known, id: &str) -> Option<Value> {
    let e = kf.entries.iter().find(|e| e.id == id)?;
    let w = e.witness.as_ref()?;
    let p = Path::new(VERIF_ROOT).join(w);
    if p.exists() {
        Some(load_replay(&p))
    } else {
        None
    }
}

pub fn truncate(s: &str, n: usize) -> String {
    if s.len() <= n {
        s.to_string()
    } else {
        let mut end = n;
        while !s.is_char_boundary(end) {
            end -= 1;
        }
        format!("{}…[{} bytes]", &s[..end], s.len())
    }
}

/// Finish: write evidence, exit with 0 / 1.
pub fn finish(ev: &Evidence) -> ! {
    ev.write();
    use std::io::Write;
    let _ = std::io::stdout().flush();
    if ev.violations > 0 {
        std::process::exit(1);
    }
    std::process::exit(0);
}

// ---------------------------------------------------------------------------------------
// Panic capture

thread_local! {
    static LAST_PANIC: RefCell<Option<String>> = RefCell::new(None);
}

/// Install a hook that records the panic message+location per thread instead of printing.
pub fn quiet_panics() {
    std::panic::set_hook(Box::new(|info| {
        let msg = if let Some(s) = info.payload().downcast_ref::<&str>() {
            s.to_string()
        } else if let Some(s) = info.payload().downcast_ref::<String>() {
            s.clone()
        } else {
            "<non-string panic>".to_string()
        };
        let loc = info.location().map(|l| format!("{}:{}", l.file(), l.line())).unwrap_or_default();
        LAST_PANIC.with(|p| *p.borrow_mut() = Some(format!("{msg} @ {loc}")));
    }));
}

/// Run `f`, turning a panic into Err(message @ location).
pub fn catch<T>(f: impl FnOnce() -> T) -> Result<T, String> {
    match std::panic::catch_unwind(std::panic::AssertUnwindSafe(f)) {
        Ok(v) => Ok(v),
        Err(_) => Err(LAST_PANIC.with(|p| p.borrow_mut().take()).unwrap_or_else(|| "panic".to_string())),
    }
}

// ---------------------------------------------------------------------------------------
// proptest driving

pub fn pt_config(seed: u64, cases: u32) -> Config {
    Config {
        cases,
        rng_seed: RngSeed::Fixed(seed),
        failure_persistence: None,
        max_shrink_iters: 4000,
        max_global_rejects: 1 << 20,
        ..Config::default()
    }
}

/// Drive `check` over `cases` values of `strat` with a fixed seed. On failure the case is
/// shrunk and returned with its message. `check` returns Ok(()) for pass, Err(msg) for a
/// violation. The caller's Evidence should be frozen on first failure (see `Frozen`).
pub fn search<S, F>(seed: u64, cases: u32, strat: &S, check: F) -> Option<(S::Value, String)>
where
    S: Strategy,
    S::Value: Clone + std::fmt::Debug,
    F: Fn(&S::Value) -> Result<(), String>,
{
    let mut runner = TestRunner::new(pt_config(seed, cases));
    let res = runner.run(strat, |v| match check(&v) {
        Ok(()) => Ok(()),
        Err(m) => Err(TestCaseError::fail(m)),
    });
    match res {
        Ok(()) => None,
        Err(TestError::Fail(reason, v)) => Some((v, reason.message().to_string())),
        Err(TestError::Abort(reason)) => {
            eprintln!("INCONCLUSIVE: proptest aborted: {}", reason.message());
            std::process::exit(2);
        }
    }
}

/// Generate `n` values from a strategy deterministically (no shrinking) — for checks that
/// need materialised inputs (fork runner batches, corpora).
pub fn generate<S: Strategy>(seed: u64, n: usize, strat: &S) -> Vec<S::Value> {
    let mut runner = TestRunner::new(pt_config(seed, n as u32));
    let mut out = Vec::with_capacity(n);
    for _ in 0..n {
        match strat.new_tree(&mut runner) {
            Ok(t) => out.push(t.current()),
            Err(e) => {
                eprintln!("INCONCLUSIVE: strategy failed: {e}");
                std::process::exit(2);
            }
        }
    }
    out
}

/// Greedy shrinker for `Vec<T>` cases found outside proptest (enumerators, fork runner):
/// repeatedly removes chunks / single elements while `fails` stays true.
pub fn shrink_vec<T: Clone>(mut v: Vec<T>, fails: &dyn Fn(&[T]) -> bool) -> Vec<T> {
    let mut chunk = (v.len() / 2).max(1);
    loop {
        let mut changed = false;
        let mut i = 0;
        while i < v.len() {
            let end = (i + chunk).min(v.len());
            let mut cand = v.clone();
            cand.drain(i..end);
            if fails(&cand) {
                v = cand;
                changed = true;
            } else {
                i += chunk;
            }
        }
        if !changed {
            if chunk == 1 {
                break;
            }
            chunk = (chunk / 2).max(1);
        }
    }
    v
}

/// monotone index mapping (keeps proptest shrinking meaningful): u16 selector -> 0..len
pub fn pick_idx(sel: u16, len: usize) -> usize {
    if len == 0 {
        0
    } else {
        ((sel as usize) * len) >> 16
    }
}

// ---------------------------------------------------------------------------------------
// Global watchdog: a run that exceeds its budget is inconclusive (exit 2), never a violation.

pub fn start_watchdog(secs: u64) {
    std::thread::spawn(move || {
        std::thread::sleep(std::time::Duration::from_secs(secs));
        eprintln!("INCONCLUSIVE: global watchdog of {secs}s expired");
        unsafe { libc::_exit(2) };
    });
}

/// Silence stdout chatter of the library under test (e.g. solver progress lines) while
/// keeping our own stdout lines: returns a File writing to the original stdout.
pub fn redirect_stdout_to_null() -> std::fs::File {
    use std::os::unix::io::FromRawFd;
    unsafe {
        let saved = libc::dup(1);
        let devnull = libc::open(b"/dev/null\0".as_ptr() as *const libc::c_char, libc::O_WRONLY);
        libc::dup2(devnull, 1);
        libc::close(devnull);
        std::fs::File::from_raw_fd(saved)
    }
}
