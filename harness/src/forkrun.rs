//! Fork isolation runner (DESIGN §3.5): runs cases in fork()ed workers so that aborts,
//! stack overflows, escaped panics, allocation-cap exits and hangs become per-case
//! verdicts instead of killing the harness.

use std::io::Read;
use std::os::unix::io::FromRawFd;

#[derive(Clone, Debug, PartialEq)]
pub enum Outcome {
    /// the case function returned; payload is whatever it wrote
    Done(Vec<u8>),
    /// worker killed by a signal while this case was in flight (SIGABRT=6, SIGSEGV=11, …)
    Signal(i32),
    /// worker exited with a code while this case was in flight (101 = escaped panic,
    /// 77 = allocation cap)
    Exit(i32),
    /// no progress within the per-case timeout; worker killed
    Timeout,
}

impl Outcome {
    pub fn describe(&self) -> String {
        match self {
            Outcome::Done(_) => "returned".into(),
            Outcome::Signal(6) => "process abort (SIGABRT)".into(),
            Outcome::Signal(11) => "stack overflow / SIGSEGV".into(),
            Outcome::Signal(s) => format!("killed by signal {s}"),
            Outcome::Exit(101) => "escaped panic (exit 101)".into(),
            Outcome::Exit(77) => "allocation cap exceeded (exit 77)".into(),
            Outcome::Exit(c) => format!("exit code {c}"),
            Outcome::Timeout => "timeout".into(),
        }
    }
}

struct Shared {
    cell: *mut u64,
}

impl Shared {
    fn new() -> Shared {
        unsafe {
            let p = libc::mmap(
                std::ptr::null_mut(),
                4096,
                libc::PROT_READ | libc::PROT_WRITE,
                libc::MAP_SHARED | libc::MAP_ANONYMOUS,
                -1,
                0,
            );
            assert!(p != libc::MAP_FAILED, "mmap failed");
            Shared { cell: p as *mut u64 }
        }
    }
    fn set(&self, v: u64) {
        unsafe { std::ptr::write_volatile(self.cell, v) }
    }
    fn get(&self) -> u64 {
        unsafe { std::ptr::read_volatile(self.cell) }
    }
}
impl Drop for Shared {
    fn drop(&mut self) {
        unsafe {
            libc::munmap(self.cell as *mut libc::c_void, 4096);
        }
    }
}

fn write_all_fd(fd: i32, mut buf: &[u8]) {
    while !buf.is_empty() {
        let n = unsafe { libc::write(fd, buf.as_ptr() as *const libc::c_void, buf.len()) };
        if n <= 0 {
            unsafe { libc::_exit(98) };
        }
        buf = &buf[n as usize..];
    }
}

/// Run `f` on every case, in forked workers. `timeout_ms` is the per-case budget.
/// `f` runs in the child and returns the payload for `Outcome::Done`.
pub fn run_isolated<T>(cases: &[T], timeout_ms: i32, f: &dyn Fn(usize, &T) -> Vec<u8>) -> Vec<Outcome> {
    let n = cases.len();
    let mut out: Vec<Option<Outcome>> = vec![None; n];
    let shared = Shared::new();
    let mut start = 0usize;
    while start < n {
        shared.set(start as u64);
        let mut fds = [0i32; 2];
        unsafe {
            assert_eq!(libc::pipe(fds.as_mut_ptr()), 0);
        }
        let pid = unsafe { libc::fork() };
        assert!(pid >= 0, "fork failed");
        if pid == 0 {
            // child
            unsafe { libc::close(fds[0]) };
            for i in start..n {
                shared.set(i as u64);
                let payload = f(i, &cases[i]);
                let mut rec = Vec::with_capacity(8 + payload.len());
                rec.extend_from_slice(&(i as u32).to_le_bytes());
                rec.extend_from_slice(&(payload.len() as u32).to_le_bytes());
                rec.extend_from_slice(&payload);
                write_all_fd(fds[1], &rec);
            }
            unsafe { libc::_exit(0) };
        }
        // parent
        unsafe { libc::close(fds[1]) };
        let mut file = unsafe { std::fs::File::from_raw_fd(fds[0]) };
        let mut buf: Vec<u8> = Vec::new();
        let mut next_expected = start;
        let mut timed_out = false;
        loop {
            let mut pfd = libc::pollfd { fd: fds[0], events: libc::POLLIN, revents: 0 };
            let r = unsafe { libc::poll(&mut pfd, 1, timeout_ms) };
            if r == 0 {
                // no progress within the budget: kill the worker, blame the case in flight
                unsafe { libc::kill(pid, libc::SIGKILL) };
                timed_out = true;
                break;
            }
            if r < 0 {
                continue;
            }
            let mut chunk = [0u8; 65536];
            let got = match file.read(&mut chunk) {
                Ok(0) => break,
                Ok(k) => k,
                Err(_) => break,
            };
            buf.extend_from_slice(&chunk[..got]);
            // parse complete records
            let mut off = 0;
            while buf.len() - off >= 8 {
                let idx = u32::from_le_bytes(buf[off..off + 4].try_into().unwrap()) as usize;
                let len = u32::from_le_bytes(buf[off + 4..off + 8].try_into().unwrap()) as usize;
                if buf.len() - off - 8 < len {
                    break;
                }
                out[idx] = Some(Outcome::Done(buf[off + 8..off + 8 + len].to_vec()));
                next_expected = idx + 1;
                off += 8 + len;
            }
            buf.drain(..off);
        }
        let mut status = 0i32;
        unsafe { libc::waitpid(pid, &mut status, 0) };
        drop(file);
        if next_expected >= n && !timed_out {
            break;
        }
        if next_expected >= n {
            break;
        }
        // the worker died (or was killed) with case `inflight` in flight
        let inflight = (shared.get() as usize).max(next_expected).min(n - 1);
        let oc = if timed_out {
            Outcome::Timeout
        } else if libc::WIFSIGNALED(status) {
            Outcome::Signal(libc::WTERMSIG(status))
        } else if libc::WIFEXITED(status) {
            Outcome::Exit(libc::WEXITSTATUS(status))
        } else {
            Outcome::Exit(-1)
        };
        // cases between next_expected and inflight (exclusive) cannot exist (sequential), but be safe
        for k in next_expected..inflight {
            if out[k].is_none() {
                out[k] = Some(Outcome::Exit(-2));
            }
        }
        out[inflight] = Some(oc);
        start = inflight + 1;
    }
    out.into_iter().map(|o| o.unwrap_or(Outcome::Exit(-3))).collect()
}

// ---------------------------------------------------------------------------------------
// Counting allocator: binaries that need allocation verdicts declare
//   #[global_allocator] static A: vcheck::forkrun::CountingAlloc = vcheck::forkrun::CountingAlloc;

use std::alloc::{GlobalAlloc, Layout, System};
use std::sync::atomic::{AtomicUsize, Ordering};

pub static LIVE: AtomicUsize = AtomicUsize::new(0);
pub static PEAK: AtomicUsize = AtomicUsize::new(0);
pub static LARGEST: AtomicUsize = AtomicUsize::new(0);
/// hard cap for one request; 0 = off. A request above it ends the process with exit 77.
pub static HARD_CAP: AtomicUsize = AtomicUsize::new(0);

pub struct CountingAlloc;

unsafe impl GlobalAlloc for CountingAlloc {
    unsafe fn alloc(&self, layout: Layout) -> *mut u8 {
        let sz = layout.size();
        let cap = HARD_CAP.load(Ordering::Relaxed);
        if cap != 0 && sz > cap {
            libc::_exit(77);
        }
        LARGEST.fetch_max(sz, Ordering::Relaxed);
        let live = LIVE.fetch_add(sz, Ordering::Relaxed) + sz;
        PEAK.fetch_max(live, Ordering::Relaxed);
        if cap != 0 && live > cap.saturating_mul(4) {
            libc::_exit(77);
        }
        System.alloc(layout)
    }
    unsafe fn dealloc(&self, ptr: *mut u8, layout: Layout) {
        LIVE.fetch_sub(layout.size(), Ordering::Relaxed);
        System.dealloc(ptr, layout)
    }
    unsafe fn realloc(&self, ptr: *mut u8, layout: Layout, new_size: usize) -> *mut u8 {
        let cap = HARD_CAP.load(Ordering::Relaxed);
        if cap != 0 && new_size > cap {
            libc::_exit(77);
        }
        LARGEST.fetch_max(new_size, Ordering::Relaxed);
        if new_size >= layout.size() {
            let d = new_size - layout.size();
            let live = LIVE.fetch_add(d, Ordering::Relaxed) + d;
            PEAK.fetch_max(live, Ordering::Relaxed);
        } else {
            LIVE.fetch_sub(layout.size() - new_size, Ordering::Relaxed);
        }
        System.realloc(ptr, layout, new_size)
    }
}

/// reset per-case counters; returns the live baseline
pub fn alloc_reset() -> usize {
    let live = LIVE.load(Ordering::Relaxed);
    PEAK.store(live, Ordering::Relaxed);
    LARGEST.store(0, Ordering::Relaxed);
    live
}
pub fn alloc_peak_since(baseline: usize) -> usize {
    PEAK.load(Ordering::Relaxed).saturating_sub(baseline)
}
pub fn alloc_largest() -> usize {
    LARGEST.load(Ordering::Relaxed)
}
