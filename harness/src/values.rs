//! Boundary value generator (DESIGN §3.1) and canonical, typed rendering of PropertyValue.

use proptest::prelude::*;
use samyama::graph::PropertyValue;
use serde_json::{json, Value};
use std::collections::HashMap;

/// Canonical typed text of a value: floats by bit pattern, maps with sorted keys.
/// Two values have the same canon iff they are the same value with the same type.
pub fn canon(v: &PropertyValue) -> String {
    match v {
        PropertyValue::String(s) => format!("S{:?}", s),
        PropertyValue::Integer(i) => format!("I{}", i),
        PropertyValue::Float(f) => format!("F{:016x}({:?})", f.to_bits(), f),
        PropertyValue::Boolean(b) => format!("B{}", b),
        PropertyValue::DateTime(t) => format!("T{}", t),
        PropertyValue::Array(a) => format!("A[{}]", a.iter().map(canon).collect::<Vec<_>>().join(",")),
        PropertyValue::Map(m) => {
            let mut ks: Vec<&String> = m.keys().collect();
            ks.sort();
            format!("M{{{}}}", ks.iter().map(|k| format!("{:?}:{}", k, canon(&m[*k]))).collect::<Vec<_>>().join(","))
        }
        PropertyValue::Vector(v) => format!("V[{}]", v.iter().map(|f| format!("{:08x}", f.to_bits())).collect::<Vec<_>>().join(",")),
        PropertyValue::Duration { months, days, seconds, nanos } => format!("D{}:{}:{}:{}", months, days, seconds, nanos),
        PropertyValue::Null => "N".to_string(),
    }
}

/// Like `canon`, but all NaNs are one value (payload/sign of NaN is not observable in Cypher)
pub fn canon_nan_eq(v: &PropertyValue) -> String {
    match v {
        PropertyValue::Float(f) if f.is_nan() => "Fnan".to_string(),
        PropertyValue::Array(a) => format!("A[{}]", a.iter().map(canon_nan_eq).collect::<Vec<_>>().join(",")),
        PropertyValue::Map(m) => {
            let mut ks: Vec<&String> = m.keys().collect();
            ks.sort();
            format!("M{{{}}}", ks.iter().map(|k| format!("{:?}:{}", k, canon_nan_eq(&m[*k]))).collect::<Vec<_>>().join(","))
        }
        other => canon(other),
    }
}

/// Lossless JSON encoding for replay files.
pub fn to_json(v: &PropertyValue) -> Value {
    match v {
        PropertyValue::String(s) => json!({"S": s}),
        PropertyValue::Integer(i) => json!({"I": i}),
        PropertyValue::Float(f) => json!({"F": format!("{:016x}", f.to_bits()), "~": format!("{:?}", f)}),
        PropertyValue::Boolean(b) => json!({"B": b}),
        PropertyValue::DateTime(t) => json!({"T": t}),
        PropertyValue::Array(a) => json!({"A": a.iter().map(to_json).collect::<Vec<_>>()}),
        PropertyValue::Map(m) => {
            let mut ks: Vec<&String> = m.keys().collect();
            ks.sort();
            json!({"M": ks.iter().map(|k| json!([k, to_json(&m[*k])])).collect::<Vec<_>>()})
        }
        PropertyValue::Vector(v) => json!({"V": v.iter().map(|f| format!("{:08x}", f.to_bits())).collect::<Vec<_>>()}),
        PropertyValue::Duration { months, days, seconds, nanos } => json!({"D": [months, days, seconds, nanos]}),
        PropertyValue::Null => json!({"N": null}),
    }
}

pub fn from_json(v: &Value) -> PropertyValue {
    let o = v.as_object().expect("value object");
    if let Some(s) = o.get("S") {
        PropertyValue::String(s.as_str().unwrap().to_string())
    } else if let Some(i) = o.get("I") {
        PropertyValue::Integer(i.as_i64().unwrap())
    } else if let Some(f) = o.get("F") {
        PropertyValue::Float(f64::from_bits(u64::from_str_radix(f.as_str().unwrap(), 16).unwrap()))
    } else if let Some(b) = o.get("B") {
        PropertyValue::Boolean(b.as_bool().unwrap())
    } else if let Some(t) = o.get("T") {
        PropertyValue::DateTime(t.as_i64().unwrap())
    } else if let Some(a) = o.get("A") {
        PropertyValue::Array(a.as_array().unwrap().iter().map(from_json).collect())
    } else if let Some(m) = o.get("M") {
        let mut out = HashMap::new();
        for kv in m.as_array().unwrap() {
            out.insert(kv[0].as_str().unwrap().to_string(), from_json(&kv[1]));
        }
        PropertyValue::Map(out)
    } else if let Some(vv) = o.get("V") {
        PropertyValue::Vector(vv.as_array().unwrap().iter().map(|x| f32::from_bits(u32::from_str_radix(x.as_str().unwrap(), 16).unwrap())).collect())
    } else if let Some(d) = o.get("D") {
        PropertyValue::Duration {
            months: d[0].as_i64().unwrap(),
            days: d[1].as_i64().unwrap(),
            seconds: d[2].as_i64().unwrap(),
            nanos: d[3].as_i64().unwrap() as i32,
        }
    } else {
        PropertyValue::Null
    }
}

pub const NEG_NAN_BITS: u64 = 0xfff8_0000_0000_0000;
pub const POS_NAN_BITS: u64 = 0x7ff8_0000_0000_0000;
pub const NAN_PAYLOAD_BITS: u64 = 0x7ff8_0000_0000_0001;

pub fn boundary_floats() -> Vec<f64> {
    vec![
        0.0,
        -0.0,
        1.0,
        -1.0,
        0.5,
        2.0,
        1.5,
        f64::from_bits(POS_NAN_BITS),
        f64::from_bits(NEG_NAN_BITS),
        f64::from_bits(NAN_PAYLOAD_BITS),
        f64::INFINITY,
        f64::NEG_INFINITY,
        9007199254740992.0,
        9007199254740993.0_f64,
        -9007199254740992.0,
        f64::MIN_POSITIVE,
        5e-324,
        f64::MAX,
        f64::MIN,
        1e308,
        0.1,
    ]
}

pub fn boundary_ints() -> Vec<i64> {
    vec![0, 1, -1, 2, 3, i64::MAX, i64::MIN, 1 << 53, (1 << 53) + 1, (1 << 53) - 1, -(1 << 53), i32::MAX as i64, i32::MIN as i64, 255, 256]
}

pub fn boundary_strings() -> Vec<&'static str> {
    vec![
        "", " ", " pad ", "\t", "a\r\nb", "\n", "\r", "a", "b", "ab", "A", "'", "\"", "\\", "it's", "say \"hi\"", "back\\slash", "\0", "nul\0mid",
        "t", "n", "e", "__type", "null", "true", "1", "1.0", "é", "e\u{301}", "😀", "\u{10FFFF}", "日本語", "a  b", "a b", "{\"t\":\"n\"}", "\u{1}", "\u{1f}", "\u{7f}",
        "\u{fffd}", "line1\nline2", "<tag>&amp;", "]]>",
    ]
}

pub fn float_strategy() -> impl Strategy<Value = f64> {
    prop_oneof![
        4 => proptest::sample::select(boundary_floats()),
        2 => (-8i32..8, 0u32..4).prop_map(|(m, e)| m as f64 / (1u32 << e) as f64),
        1 => any::<u64>().prop_map(f64::from_bits),
    ]
}

pub fn int_strategy() -> impl Strategy<Value = i64> {
    prop_oneof![
        4 => proptest::sample::select(boundary_ints()),
        3 => -4i64..8,
        1 => any::<i64>(),
    ]
}

pub fn string_strategy() -> impl Strategy<Value = String> {
    prop_oneof![
        5 => proptest::sample::select(boundary_strings()).prop_map(|s| s.to_string()),
        2 => "[a-c ]{0,4}",
        1 => proptest::collection::vec(any::<char>(), 0..5).prop_map(|v| v.into_iter().collect::<String>()),
    ]
}

/// Scalars of every non-container variant.
pub fn scalar_strategy() -> BoxedStrategy<PropertyValue> {
    prop_oneof![
        3 => int_strategy().prop_map(PropertyValue::Integer),
        3 => float_strategy().prop_map(PropertyValue::Float),
        3 => string_strategy().prop_map(PropertyValue::String),
        1 => any::<bool>().prop_map(PropertyValue::Boolean),
        1 => prop_oneof![Just(0i64), Just(-1i64), Just(1700000000000i64), any::<i64>()].prop_map(PropertyValue::DateTime),
        1 => (prop_oneof![Just(0i64), -3i64..14], prop_oneof![Just(0i64), -40i64..40], prop_oneof![Just(0i64), -100000i64..100000], prop_oneof![Just(0i32), -999_999_999i32..999_999_999])
            .prop_map(|(months, days, seconds, nanos)| PropertyValue::Duration { months, days, seconds, nanos }),
        1 => proptest::collection::vec(prop_oneof![Just(0.0f32), Just(-0.0f32), Just(1.0f32), Just(f32::NAN), Just(f32::INFINITY), (-8i32..8).prop_map(|x| x as f32 / 4.0)], 0..4).prop_map(PropertyValue::Vector),
        1 => Just(PropertyValue::Null),
    ]
    .boxed()
}

/// Every variant, nested containers to `depth`.
pub fn value_strategy(depth: u32) -> BoxedStrategy<PropertyValue> {
    if depth == 0 {
        return scalar_strategy();
    }
    let inner = value_strategy(depth - 1);
    let keys = prop_oneof![
        4 => proptest::sample::select(vec!["a", "b", "t", "n", "__type", "", "k k", "é"]).prop_map(|s| s.to_string()),
        1 => "[a-c]{1,2}",
    ];
    prop_oneof![
        6 => scalar_strategy(),
        2 => proptest::collection::vec(inner.clone(), 0..4).prop_map(PropertyValue::Array),
        2 => proptest::collection::vec((keys, inner), 0..4).prop_map(|kv| PropertyValue::Map(kv.into_iter().collect())),
    ]
    .boxed()
}

/// The enumerated boundary set used for exhaustive triple checks (C10).
pub fn boundary_set() -> Vec<PropertyValue> {
    let mut out = Vec::new();
    for f in boundary_floats() {
        out.push(PropertyValue::Float(f));
    }
    for i in boundary_ints() {
        out.push(PropertyValue::Integer(i));
    }
    for s in ["", " ", "a", "b", "ab", "A", "é", "\u{10FFFF}", "1", "a b", "a  b"] {
        out.push(PropertyValue::String(s.to_string()));
    }
    out.push(PropertyValue::Boolean(false));
    out.push(PropertyValue::Boolean(true));
    out.push(PropertyValue::DateTime(0));
    out.push(PropertyValue::DateTime(-1));
    out.push(PropertyValue::DateTime(1));
    out.push(PropertyValue::Null);
    out.push(PropertyValue::Duration { months: 0, days: 0, seconds: 0, nanos: 0 });
    out.push(PropertyValue::Duration { months: 1, days: 0, seconds: 0, nanos: 0 });
    out.push(PropertyValue::Duration { months: 0, days: 30, seconds: 0, nanos: 0 });
    out.push(PropertyValue::Duration { months: 0, days: 0, seconds: -1, nanos: 5 });
    out.push(PropertyValue::Vector(vec![]));
    out.push(PropertyValue::Vector(vec![0.0]));
    out.push(PropertyValue::Vector(vec![-0.0]));
    out.push(PropertyValue::Vector(vec![f32::NAN]));
    out.push(PropertyValue::Vector(vec![1.0, 2.0]));
    out.push(PropertyValue::Array(vec![]));
    out.push(PropertyValue::Array(vec![PropertyValue::Integer(1)]));
    out.push(PropertyValue::Array(vec![PropertyValue::Float(1.0)]));
    out.push(PropertyValue::Array(vec![PropertyValue::Float(f64::NAN)]));
    out.push(PropertyValue::Array(vec![PropertyValue::Float(f64::from_bits(NEG_NAN_BITS))]));
    out.push(PropertyValue::Array(vec![PropertyValue::Float(0.0)]));
    out.push(PropertyValue::Array(vec![PropertyValue::Float(-0.0)]));
    out.push(PropertyValue::Array(vec![PropertyValue::Null]));
    out.push(PropertyValue::Array(vec![PropertyValue::Integer(1), PropertyValue::Integer(2)]));
    out.push(PropertyValue::Array(vec![PropertyValue::Array(vec![])]));
    out.push(PropertyValue::Map(HashMap::new()));
    let mut m = HashMap::new();
    m.insert("a".to_string(), PropertyValue::Integer(1));
    out.push(PropertyValue::Map(m.clone()));
    m.insert("a".to_string(), PropertyValue::Float(1.0));
    out.push(PropertyValue::Map(m.clone()));
    m.insert("a".to_string(), PropertyValue::Float(f64::NAN));
    out.push(PropertyValue::Map(m.clone()));
    m.insert("a".to_string(), PropertyValue::Float(-0.0));
    out.push(PropertyValue::Map(m.clone()));
    m.insert("b".to_string(), PropertyValue::Null);
    out.push(PropertyValue::Map(m));
    out
}

/// Cypher literal spelling of a value, when one exists.
pub fn cypher_literal(v: &PropertyValue) -> Option<String> {
    Some(match v {
        PropertyValue::Null => "null".to_string(),
        PropertyValue::Boolean(b) => b.to_string(),
        PropertyValue::Integer(i) => {
            if *i == i64::MIN {
                return None;
            }
            if *i < 0 {
                format!("({})", i)
            } else {
                i.to_string()
            }
        }
        PropertyValue::Float(f) => {
            if !f.is_finite() {
                return None;
            }
            let s = format!("{:?}", f);
            let s = if s.contains('.') || s.contains('e') || s.contains('E') { s } else { format!("{s}.0") };
            if f.is_sign_negative() {
                format!("({})", s)
            } else {
                s
            }
        }
        PropertyValue::String(s) => cypher_string(s)?,
        PropertyValue::Array(a) => {
            let mut parts = Vec::new();
            for x in a {
                parts.push(cypher_literal(x)?);
            }
            format!("[{}]", parts.join(", "))
        }
        PropertyValue::Map(m) => {
            let mut ks: Vec<&String> = m.keys().collect();
            ks.sort();
            let mut parts = Vec::new();
            for k in ks {
                if !k.chars().all(|c| c.is_ascii_alphanumeric() || c == '_') || k.is_empty() || k.chars().next().unwrap().is_ascii_digit() {
                    return None;
                }
                parts.push(format!("{}: {}", k, cypher_literal(&m[k])?));
            }
            format!("{{{}}}", parts.join(", "))
        }
        _ => return None,
    })
}

/// Single-quoted Cypher string literal; None when the grammar has no spelling we trust.
pub fn cypher_string(s: &str) -> Option<String> {
    let mut out = String::from("'");
    for c in s.chars() {
        match c {
            '\'' => out.push_str("\\'"),
            '\\' => out.push_str("\\\\"),
            '\n' => out.push_str("\\n"),
            '\r' => out.push_str("\\r"),
            '\t' => out.push_str("\\t"),
            '\0' => return None,
            c => out.push(c),
        }
    }
    out.push('\'');
    Some(out)
}
